#!/bin/bash
# Idempotent, offline: put z3-solver next to /venv's interpreter (which has odxtools
# as an editable install of /repo and its dependencies) without touching /venv.
set -e
cd "$(dirname "$0")"
DEPS=/verif/.deps
if [ ! -f "$DEPS/.ok" ]; then
  rm -rf "$DEPS"; mkdir -p "$DEPS"
  PIP_NO_INDEX=1 /venv/bin/python -m pip install --quiet --no-index --no-deps \
      --find-links /opt/veriftools/wheels --target "$DEPS" z3-solver >/dev/null
  PYTHONPATH="$DEPS" /venv/bin/python -c "import z3; assert z3.get_version_string().startswith('5.')"
  touch "$DEPS/.ok"
fi
mkdir -p /verif/evidence /verif/replays
