"""symx core: symbolic proxy values over z3 bit-vectors / IEEE floats and the
per-path context (decision prefix, path condition, obligations).

The proxies are NOT subclasses of int/float/bytes/bytearray/str: they report
`__class__` as the built-in type (the unittest.mock technique), so that the
library's `isinstance(x, int)` checks hold, while every C-level fast path
(`PyLong_Check`, buffer protocol, `float.__mul__(f, x)`, `bytearray += x`,
`enum == x`) fails its exact type test and either returns NotImplemented -
which makes Python call the proxy's reflected method - or raises TypeError.
A proxy can therefore never be read silently as a placeholder value.  Every
data-dependent Python-level branch goes through SymBool.__bool__ -> Ctx.branch,
which is the only place paths split.
"""
import time
import z3

W = 80  # width of the bit-vector carrier of SymInt (set per harness via set_width)



def set_width(w):
    global W
    W = w


class Abort(BaseException):
    """path is dead (infeasible assumption); not a verdict"""


class Inconclusive(BaseException):
    """engine limit hit on this path (unsupported op, solver unknown, bound exceeded)"""

    def __init__(self, reason):
        super().__init__(reason)
        self.reason = reason


class Unsupported(Inconclusive):
    pass


class Ctx:
    cur = None  # the active symbolic context (None => concrete mode)

    def __init__(self, prefix, timeout_ms=20000, max_decisions=4000):
        self.solver = z3.Solver()
        self.solver.set("timeout", timeout_ms)
        self.timeout_ms = timeout_ms
        self.prefix = prefix
        self.pos = 0
        self.pc = []
        self.model = None  # a model of pc, if known
        self.queries = 0
        self.qtime = 0.0
        self.divcache = {}
        self.nfresh = 0
        self.ovf = []  # overflow side conditions (z3 Bool: "an overflow happened")
        self.max_decisions = max_decisions
        self.forks = {}  # value-fork call sites -> count (diagnostics)
        self.has_fp = False
        self.vars = {}  # name -> z3 constant (inputs and fresh variables), for cvc5 models
        self.fp_z3_rlimit = 700000  # about 0.4 s on this image
        self.fp_tlimit_s = 60
        self._sat_model = None

    # -- solver plumbing ---------------------------------------------------
    def _check(self, *extra):
        """sat/unsat of pc & extra.  Bit-vector queries: z3 (incremental).  When FP terms are
        around z3 gets a short budget first and the query then goes to the cvc5 binary."""
        self.queries += 1
        t = time.time()
        self._sat_model = None
        if self.has_fp:
            # a resource limit, not a timer: deterministic, and z3 5.1 segfaults sporadically
            # when its timer thread cancels a floating-point query
            self.solver.set("rlimit", self.fp_z3_rlimit)
        try:
            r = self.solver.check(*extra)
        finally:
            if self.has_fp:
                self.solver.set("rlimit", 0)
        self.qtime += time.time() - t
        if r == z3.sat:
            self._sat_model = self.solver.model()
        if r == z3.unknown and self.has_fp:
            from . import fpsolve
            if fpsolve.CVC5 is not None:
                st, vals = fpsolve.check(list(self.pc) + list(extra), sorted(self.vars),
                                         tlimit_s=self.fp_tlimit_s)
                if st == "unsat":
                    return z3.unsat
                if st == "sat":
                    self._sat_model = PseudoModel(self.vars, vals)
                    return z3.sat
            t = time.time()
            r = self.solver.check(*extra)
            self.qtime += time.time() - t
            if r == z3.sat:
                self._sat_model = self.solver.model()
        if r == z3.unknown:
            raise Inconclusive("solver unknown: " + self.solver.reason_unknown())
        return r

    def sat_model(self):
        """model of the last satisfiable _check"""
        return self._sat_model

    def add(self, cond):
        self.pc.append(cond)
        self.solver.add(cond)

    def fresh(self, tag, sort_bits):
        self.nfresh += 1
        v = z3.BitVec(f"{tag}!{self.nfresh}", sort_bits)
        self.vars[str(v)] = v
        return v

    def _model_says(self, cond):
        if self.model is None:
            return None
        try:
            v = self.model.eval(cond, model_completion=True)
        except z3.Z3Exception:
            return None
        if z3.is_true(v):
            return True
        if z3.is_false(v):
            return False
        return None

    def feasible(self, cond):
        """is pc & cond satisfiable? keeps a model when it is"""
        if self._model_says(cond) is True:
            return True
        r = self._check(cond)
        if r == z3.sat:
            self._last_model = self.sat_model()
            return True
        return False

    def branch(self, cond, val=None):
        """cond: z3 Bool.  Returns the Python bool taken on this path."""
        cond = z3.simplify(cond)
        if z3.is_true(cond):
            return True
        if z3.is_false(cond):
            return False
        if self.pos >= self.max_decisions:
            raise Inconclusive(f"more than {self.max_decisions} decisions on one path")
        if self.pos < len(self.prefix):
            d = self.prefix[self.pos][0]
            taken = cond if d else z3.Not(cond)
            if self._model_says(taken) is not True:
                self.model = None
        else:
            ms = self._model_says(cond)
            self._last_model = None
            if ms is True:
                t_ok = True
                f_ok = self._check(z3.Not(cond)) == z3.sat
                if f_ok:
                    pass  # keep current model (it satisfies cond, we go True first)
            elif ms is False:
                f_ok = True
                t_ok = self._check(cond) == z3.sat
                if t_ok:
                    self.model = self.sat_model()
            else:
                t_ok = self._check(cond) == z3.sat
                if t_ok:
                    self.model = self.sat_model()
                    f_ok = self._check(z3.Not(cond)) == z3.sat
                else:
                    f_ok = True
                    # pc is satisfiable by invariant, so Not(cond) holds on all models
            if t_ok and f_ok:
                d = True
                self.prefix.append([True, True, val])
            elif t_ok:
                d = True
                self.prefix.append([True, False, val])
            elif f_ok:
                d = False
                self.prefix.append([False, False, val])
                if ms is not False:
                    self.model = None
            else:
                raise Abort("infeasible")
            taken = cond if d else z3.Not(cond)
        self.pos += 1
        self.add(taken)
        return d

    def get_model(self):
        if self.model is not None:
            return self.model
        if self._check() != z3.sat:
            raise Abort("infeasible path condition")
        self.model = self.sat_model()
        return self.model


class PseudoModel:
    """model returned by cvc5: evaluation by substitution of every variable + simplification"""

    def __init__(self, variables, vals):
        self.subst = []
        for name, var in variables.items():
            v = vals.get(name)
            srt = var.sort()
            if z3.is_bool(var):
                self.subst.append((var, z3.BoolVal(bool(v))))
            elif z3.is_bv(var):
                self.subst.append((var, z3.BitVecVal(v[1] if v else 0, srt.size())))
            elif z3.is_fp(var):
                bits = v[1] if v else 0
                n = srt.ebits() + srt.sbits()
                self.subst.append((var, z3.fpBVToFP(z3.BitVecVal(bits, n), srt)))

    def eval(self, e, model_completion=True):
        return z3.simplify(z3.substitute(e, *self.subst))


def cur():
    c = Ctx.cur
    if c is None:
        raise RuntimeError("symbolic value used outside of a symbolic context")
    return c


def _site():
    import sys
    f = sys._getframe(2)
    for _ in range(8):
        if f is None:
            break
        fn = f.f_code.co_filename
        if "/symx/" not in fn and "/models/" not in fn:
            return f"{fn.rsplit('/', 1)[-1]}:{f.f_lineno}"
        f = f.f_back
    return "?"


def concretize(x):
    """value-fork: pick a feasible value, branch on equality with it"""
    if isinstance(x, SymBool):
        return bool(x)
    if not isinstance(x, SymInt):
        return x
    c = cur()
    site = _site()
    while True:
        if c.pos < len(c.prefix) and c.prefix[c.pos][2] is not None:
            val = c.prefix[c.pos][2]
        else:
            m = c.get_model()
            val = m.eval(x.e, model_completion=True).as_signed_long()
            c.forks[site] = c.forks.get(site, 0) + 1
        if c.branch(x.e == val, val):
            return val


# --------------------------------------------------------------------------
# booleans
# --------------------------------------------------------------------------
class SymBool:
    __slots__ = ("e",)

    def __init__(self, e):
        self.e = e

    def __bool__(self):
        return cur().branch(self.e)

    def _o(self, o):
        if isinstance(o, SymBool):
            return o.e
        if isinstance(o, SymInt):
            return o.e != 0
        return z3.BoolVal(bool(o))

    def __and__(self, o):
        return mkbool(z3.And(self.e, self._o(o)))

    __rand__ = __and__

    def __or__(self, o):
        return mkbool(z3.Or(self.e, self._o(o)))

    __ror__ = __or__

    def __invert__(self):
        return mkbool(z3.Not(self.e))

    def __eq__(self, o):
        return mkbool(self.e == self._o(o))

    def __ne__(self, o):
        return mkbool(self.e != self._o(o))

    __hash__ = None

    def __repr__(self):
        return "<symbool>"


def mkbool(e):
    e = z3.simplify(e)
    if z3.is_true(e):
        return True
    if z3.is_false(e):
        return False
    return SymBool(e)


def boolterm(x):
    if isinstance(x, SymBool):
        return x.e
    if isinstance(x, SymInt):
        return x.e != 0
    if z3.is_expr(x):
        return x
    return z3.BoolVal(bool(x))


def s_not(x):
    if isinstance(x, SymBool):
        return ~x
    return not x


def s_and(*xs):
    return mkbool(z3.And([boolterm(x) for x in xs]))


def s_or(*xs):
    return mkbool(z3.Or([boolterm(x) for x in xs]))


def s_implies(a, b):
    return mkbool(z3.Implies(boolterm(a), boolterm(b)))


# --------------------------------------------------------------------------
# integers
# --------------------------------------------------------------------------
def _fits(lo, hi):
    return -(1 << (W - 1)) <= lo and hi < (1 << (W - 1))


def bv(x):
    """W-bit term of an int-like"""
    if isinstance(x, SymInt):
        return x.e
    if isinstance(x, SymBool):
        return z3.If(x.e, z3.BitVecVal(1, W), z3.BitVecVal(0, W))
    if isinstance(x, bool):
        x = int(x)
    x = int(x)
    if not _fits(x, x):
        raise Inconclusive(f"width: constant {x.bit_length()} bits does not fit W={W}")
    return z3.BitVecVal(x, W)


def rng(x):
    if isinstance(x, SymInt):
        return x.lo, x.hi
    if isinstance(x, SymBool):
        return 0, 1
    x = int(x)
    return x, x


def mkint(e, lo, hi, ovf=None):
    """lift a W-bit term with a conservative interval [lo, hi] of its mathematical value.
    ovf: z3 Bool 'the machine result differs from the mathematical one' - recorded as side
    condition only if the interval does not prove that it cannot happen."""
    if lo > hi:
        lo, hi = hi, lo
    if not _fits(lo, hi):
        if ovf is None:
            raise Inconclusive("width: result interval exceeds W and no overflow predicate")
        cur().ovf.append(ovf)
        lo = max(lo, -(1 << (W - 1)))
        hi = min(hi, (1 << (W - 1)) - 1)
    e = z3.simplify(e)
    if z3.is_bv_value(e):
        return e.as_signed_long()
    return SymInt(e, lo, hi)


def _isnum(o):
    return isinstance(o, (int, SymBool)) and not isinstance(o, float)


class SymInt:
    __class__ = property(lambda s: int)

    def __init__(s, e, lo=None, hi=None):
        s.e = e
        s.lo = -(1 << (W - 1)) if lo is None else lo
        s.hi = (1 << (W - 1)) - 1 if hi is None else hi

    # ---- arithmetic
    def __add__(s, o):
        if isinstance(o, float):
            return tofloat(s) + o
        if not _isnum(o):
            return NotImplemented
        a, b = s.e, bv(o)
        (l1, h1), (l2, h2) = rng(s), rng(o)
        return mkint(a + b, l1 + l2, h1 + h2,
                     z3.Not(z3.And(z3.BVAddNoOverflow(a, b, True), z3.BVAddNoUnderflow(a, b))))

    __radd__ = __add__

    def __sub__(s, o):
        if isinstance(o, float):
            return tofloat(s) - o
        if not _isnum(o):
            return NotImplemented
        a, b = s.e, bv(o)
        (l1, h1), (l2, h2) = rng(s), rng(o)
        return mkint(a - b, l1 - h2, h1 - l2,
                     z3.Not(z3.And(z3.BVSubNoOverflow(a, b), z3.BVSubNoUnderflow(a, b, True))))

    def __rsub__(s, o):
        if isinstance(o, float):
            return o - tofloat(s)
        if not _isnum(o):
            return NotImplemented
        a, b = bv(o), s.e
        (l1, h1), (l2, h2) = rng(o), rng(s)
        return mkint(a - b, l1 - h2, h1 - l2,
                     z3.Not(z3.And(z3.BVSubNoOverflow(a, b), z3.BVSubNoUnderflow(a, b, True))))

    def __neg__(s):
        return mkint(-s.e, -s.hi, -s.lo, s.e == z3.BitVecVal(1 << (W - 1), W))

    def __pos__(s):
        return s

    def __abs__(s):
        lo, hi = s.lo, s.hi
        if lo >= 0:
            return s
        nl = 0 if hi >= 0 else -hi
        nh = max(abs(lo), abs(hi))
        return mkint(z3.If(s.e < 0, -s.e, s.e), nl, nh, s.e == z3.BitVecVal(1 << (W - 1), W))

    def __mul__(s, o):
        if isinstance(o, float):
            return tofloat(s) * o
        if not _isnum(o):
            return NotImplemented
        if isinstance(o, SymInt) and not (max(abs(s.lo), abs(s.hi)) * max(abs(o.lo), abs(o.hi))
                                          < (1 << 24)):
            raise Unsupported("symbolic * symbolic multiplication (wide)")
        a, b = s.e, bv(o)
        (l1, h1), (l2, h2) = rng(s), rng(o)
        cands = [l1 * l2, l1 * h2, h1 * l2, h1 * h2]
        return mkint(a * b, min(cands), max(cands),
                     z3.Not(z3.And(z3.BVMulNoOverflow(a, b, True), z3.BVMulNoUnderflow(a, b))))

    __rmul__ = __mul__

    def _divmod_const(s, o):
        if isinstance(o, SymInt):
            o = concretize(o)
        if not isinstance(o, int) or o == 0:
            if o == 0:
                raise ZeroDivisionError("integer division or modulo by zero")
            raise Unsupported("division by non-int")
        if o < 0:
            raise Unsupported("division by negative constant")
        if o & (o - 1) == 0:
            k = o.bit_length() - 1
            q = mkint(s.e >> k, s.lo >> k, s.hi >> k)
            r = mkint(s.e & (o - 1), 0, o - 1)
            return q, r
        c = cur()
        key = (s.e.get_id(), o)
        if key in c.divcache:
            return c.divcache[key]
        q = c.fresh("q", W)
        r = c.fresh("r", W)
        ql, qh = s.lo // o, s.hi // o
        c.add(z3.And(s.e == o * q + r, r >= 0, r < o, q >= ql, q <= qh))
        c.model = None
        res = (SymInt(q, ql, qh), SymInt(r, 0, o - 1))
        c.divcache[key] = res
        return res

    def __floordiv__(s, o):
        if isinstance(o, float):
            raise Unsupported("int // float")
        return s._divmod_const(o)[0]

    def __mod__(s, o):
        if isinstance(o, float):
            raise Unsupported("int % float")
        return s._divmod_const(o)[1]

    def __divmod__(s, o):
        return s._divmod_const(o)

    def __rfloordiv__(s, o):
        raise Unsupported("constant // symbolic")

    def __rmod__(s, o):
        raise Unsupported("constant % symbolic")

    def __truediv__(s, o):
        return tofloat(s) / (tofloat(o) if isinstance(o, SymInt) else o)

    def __rtruediv__(s, o):
        return (tofloat(o) if isinstance(o, SymInt) else float(o)) / tofloat(s)

    def __pow__(s, o, m=None):
        if m is not None:
            raise Unsupported("3-arg pow")
        if isinstance(o, SymInt):
            o = concretize(o)
        if isinstance(o, int) and 0 <= o <= 4:
            r = 1
            for _ in range(o):
                r = r * s
            return r
        raise Unsupported("pow with symbolic base")

    def __rpow__(s, o):
        k = concretize(s)
        return o**k

    # ---- bit operations
    def __and__(s, o):
        if not _isnum(o):
            return NotImplemented
        (l1, h1), (l2, h2) = rng(s), rng(o)
        if l1 >= 0 and l2 >= 0:
            lo, hi = 0, min(h1, h2)
        elif l2 >= 0:
            lo, hi = 0, h2
        elif l1 >= 0:
            lo, hi = 0, h1
        else:
            lo, hi = -(1 << (W - 1)), (1 << (W - 1)) - 1
        return mkint(s.e & bv(o), lo, hi)

    __rand__ = __and__

    def _orx(s, o, op):
        if not _isnum(o):
            return NotImplemented
        (l1, h1), (l2, h2) = rng(s), rng(o)
        if l1 >= 0 and l2 >= 0:
            lo, hi = 0, (1 << max(h1.bit_length(), h2.bit_length())) - 1
        else:
            lo, hi = -(1 << (W - 1)), (1 << (W - 1)) - 1
        return mkint(op(s.e, bv(o)), lo, hi)

    def __or__(s, o):
        return s._orx(o, lambda a, b: a | b)

    __ror__ = __or__

    def __xor__(s, o):
        return s._orx(o, lambda a, b: a ^ b)

    __rxor__ = __xor__

    def __invert__(s):
        return mkint(~s.e, -s.hi - 1, -s.lo - 1)

    def __lshift__(s, o):
        k = concretize(o) if isinstance(o, SymInt) else int(o)
        if k < 0:
            raise ValueError("negative shift count")
        if k >= W:
            if s.lo == s.hi == 0:
                return 0
            raise Inconclusive(f"width: shift by {k} exceeds W={W}")
        r = s.e << k
        return mkint(r, s.lo << k, s.hi << k, (r >> k) != s.e)

    def __rlshift__(s, o):
        k = concretize(s)
        return o << k

    def __rshift__(s, o):
        k = concretize(o) if isinstance(o, SymInt) else int(o)
        if k < 0:
            raise ValueError("negative shift count")
        if k >= W:
            k = W - 1
        return mkint(s.e >> k, s.lo >> k, s.hi >> k)

    def __rrshift__(s, o):
        k = concretize(s)
        return o >> k

    # ---- comparisons
    def _cmp(s, o, iop, fop):
        if isinstance(o, float):
            return fop(tofloat(s), o)
        if not _isnum(o):
            return NotImplemented
        return mkbool(iop(s.e, bv(o)))

    def __lt__(s, o):
        return s._cmp(o, lambda a, b: a < b, lambda a, b: a < b)

    def __le__(s, o):
        return s._cmp(o, lambda a, b: a <= b, lambda a, b: a <= b)

    def __gt__(s, o):
        return s._cmp(o, lambda a, b: a > b, lambda a, b: a > b)

    def __ge__(s, o):
        return s._cmp(o, lambda a, b: a >= b, lambda a, b: a >= b)

    def __eq__(s, o):
        if isinstance(o, float):
            return tofloat(s) == o
        if not _isnum(o):
            return False
        if not isinstance(o, SymInt) and not isinstance(o, SymBool) and not _fits(int(o), int(o)):
            return False
        return mkbool(s.e == bv(o))

    def __ne__(s, o):
        r = s.__eq__(o)
        return s_not(r)

    def __hash__(s):
        return hash(concretize(s))

    def __bool__(s):
        return cur().branch(s.e != 0)

    def __index__(s):
        return concretize(s)

    def __int__(s):
        return s

    def __float__(s):
        return tofloat(s)

    def __round__(s, nd=None):
        return s

    __trunc__ = __floor__ = __ceil__ = __pos__

    def __repr__(s):
        return "<symint>"

    __str__ = __repr__

    def __format__(s, spec):
        if spec in ("", "d"):
            # needed for the bitstruct format strings the library builds (f"u{bit_length}")
            return str(concretize(s))
        return "<symint>"

    def conjugate(s):
        return s

    @property
    def real(s):
        return s

    def bit_length(s):
        m = max(abs(s.lo), abs(s.hi)).bit_length()
        m = min(m, W - 1)
        a = z3.If(s.e < 0, -s.e, s.e) if s.lo < 0 else s.e
        if s.lo < 0 and s.lo <= -(1 << (W - 1)):
            cur().ovf.append(s.e == z3.BitVecVal(1 << (W - 1), W))
        e = z3.BitVecVal(0, W)
        for k in range(1, m + 1):
            e = z3.If(z3.UGE(a, z3.BitVecVal(1 << (k - 1), W)), z3.BitVecVal(k, W), e)
        return mkint(e, 0, m)

    def to_bytes(s, length=1, byteorder="big", *, signed=False):
        length = concretize(length) if isinstance(length, SymInt) else length
        if signed:
            if (s < -(1 << (8 * length - 1))) or (s >= (1 << (8 * length - 1))):
                raise OverflowError("int too big to convert")
        else:
            if s < 0:
                raise OverflowError("can't convert negative int to unsigned")
            if 8 * length < W - 1 and s >= (1 << (8 * length)):
                raise OverflowError("int too big to convert")
        items = []
        for i in range(length):
            k = length - 1 - i  # byte significance
            if 8 * k + 7 < W:
                items.append(z3.Extract(8 * k + 7, 8 * k, s.e))
            elif 8 * k < W:
                ext = z3.SignExt(8 * k + 8 - W, s.e) if signed else z3.ZeroExt(8 * k + 8 - W, s.e)
                items.append(z3.Extract(8 * k + 7, 8 * k, ext))
            else:
                items.append(z3.If(s.e < 0, z3.BitVecVal(0xff, 8), z3.BitVecVal(0, 8))
                             if signed else 0)
        if byteorder == "little":
            items = items[::-1]
        return mkbytes(items)


def int_from_bytes(b, byteorder="big", *, signed=False):
    if not isinstance(b, _SB):
        return int.from_bytes(b, byteorder, signed=signed)
    items = b.items if byteorder == "big" else b.items[::-1]
    # strip leading concrete zero bytes (keeps the term narrow)
    while items and not z3.is_expr(items[0]) and items[0] == 0 and not signed:
        items = items[1:]
    if not items:
        return 0
    n = 8 * len(items)
    if n > W - 1:
        raise Inconclusive(f"width: int.from_bytes of {len(items)} bytes exceeds W={W}")
    e = z3.Concat(*[bv8(x) for x in items]) if len(items) > 1 else bv8(items[0])
    if signed:
        return mkint(z3.SignExt(W - n, e), -(1 << (n - 1)), (1 << (n - 1)) - 1)
    return mkint(z3.ZeroExt(W - n, e), 0, (1 << n) - 1)


def tofloat(x):
    """int-like -> SymFloat / float (exact for |x| < 2^53, else inconclusive)"""
    if isinstance(x, SymFloat):
        return x
    if isinstance(x, SymInt):
        if max(abs(x.lo), abs(x.hi)) > (1 << 53):
            raise Unsupported("int -> float conversion of a value that may exceed 2^53")
        cur().has_fp = True
        e = x.e
        # convert from the narrowest bit-vector that provably holds the value
        iv = (float(x.lo), float(x.hi))
        if z3.is_app_of(e, z3.Z3_OP_SIGN_EXT):
            return mkfloat(z3.fpSignedToFP(RNE, e.arg(0), F64), iv)
        if z3.is_app_of(e, z3.Z3_OP_ZERO_EXT):
            return mkfloat(z3.fpUnsignedToFP(RNE, e.arg(0), F64), iv)
        nb = max(abs(x.lo), abs(x.hi)).bit_length() + 1
        if nb < W:
            return mkfloat(z3.fpSignedToFP(RNE, z3.Extract(nb - 1, 0, e), F64), iv)
        return mkfloat(z3.fpSignedToFP(RNE, e, F64), iv)
    return float(x)


# --------------------------------------------------------------------------
# floats (IEEE binary64, round-nearest-even: CPython semantics on this platform)
# --------------------------------------------------------------------------
F64 = z3.Float64()
F32 = z3.Float32()
RNE = z3.RNE()
RTZ = z3.RTZ()


def fp(x):
    if isinstance(x, SymFloat):
        return x.e
    if isinstance(x, SymInt):
        return tofloat(x).e
    if isinstance(x, SymBool):
        return z3.If(x.e, z3.FPVal(1.0, F64), z3.FPVal(0.0, F64))
    if isinstance(x, int) and abs(x) > (1 << 53):
        raise Unsupported("huge int constant in float arithmetic")
    return z3.FPVal(float(x), F64)


def mkfloat(e, iv=None):
    e = z3.simplify(e)
    if z3.is_fp_value(e):
        return fpval_to_float(e)
    c = Ctx.cur
    if c is not None:
        c.has_fp = True
    return SymFloat(e, iv)


def fpval_to_float(v):
    import struct
    if v.isNaN():
        return float("nan")
    if v.isInf():
        return float("-inf") if v.isNegative() else float("inf")
    bvv = z3.simplify(z3.fpToIEEEBV(v))
    n = bvv.as_long()
    if v.sort().ebits() == 11:
        return struct.unpack(">d", n.to_bytes(8, "big"))[0]
    if v.sort().ebits() == 8:
        return struct.unpack(">f", n.to_bytes(4, "big"))[0]
    raise ValueError("unexpected FP sort")


def _isreal(o):
    return isinstance(o, (int, float, SymBool))


def _frng(x):
    """conservative finite interval of a float-like, or None"""
    if isinstance(x, SymFloat):
        return x.iv
    if isinstance(x, SymInt):
        return (float(x.lo), float(x.hi))
    if isinstance(x, SymBool):
        return (0.0, 1.0)
    try:
        v = float(x)
    except (OverflowError, ValueError):
        return None
    if v != v or v in (float("inf"), float("-inf")):
        return None
    return (v, v)


def _widen(lo, hi):
    """outward rounding slack for one IEEE operation"""
    import math
    if not (math.isfinite(lo) and math.isfinite(hi)) or max(abs(lo), abs(hi)) > 1e300:
        return None
    e = 2.0**-50
    return (lo - abs(lo) * e - 5e-324, hi + abs(hi) * e + 5e-324)


def _fiv(op, a, b):
    ia, ib = _frng(a), _frng(b)
    if ia is None or ib is None:
        return None
    try:
        if op == "+":
            return _widen(ia[0] + ib[0], ia[1] + ib[1])
        if op == "-":
            return _widen(ia[0] - ib[1], ia[1] - ib[0])
        if op == "*":
            c = [ia[0] * ib[0], ia[0] * ib[1], ia[1] * ib[0], ia[1] * ib[1]]
            return _widen(min(c), max(c))
        if op == "/":
            if ib[0] <= 0.0 <= ib[1]:
                return None
            c = [ia[0] / ib[0], ia[0] / ib[1], ia[1] / ib[0], ia[1] / ib[1]]
            return _widen(min(c), max(c))
    except (OverflowError, ZeroDivisionError):
        return None
    return None


class SymFloat:
    __class__ = property(lambda s: float)

    def __init__(s, e, iv=None):
        s.e = e
        s.iv = iv  # conservative finite interval (then the value is neither NaN nor inf)

    def __add__(s, o):
        return mkfloat(z3.fpAdd(RNE, s.e, fp(o)), _fiv("+", s, o)) if _isreal(o) else NotImplemented

    __radd__ = __add__

    def __sub__(s, o):
        return mkfloat(z3.fpSub(RNE, s.e, fp(o)), _fiv("-", s, o)) if _isreal(o) else NotImplemented

    def __rsub__(s, o):
        return mkfloat(z3.fpSub(RNE, fp(o), s.e), _fiv("-", o, s)) if _isreal(o) else NotImplemented

    def __mul__(s, o):
        return mkfloat(z3.fpMul(RNE, s.e, fp(o)), _fiv("*", s, o)) if _isreal(o) else NotImplemented

    __rmul__ = __mul__

    def _div(a, b, iv=None, ib=None):
        if not (ib is not None and not (ib[0] <= 0.0 <= ib[1])):
            bz = mkbool(z3.fpIsZero(b))
            if bz:
                raise ZeroDivisionError("float division by zero")
        return mkfloat(z3.fpDiv(RNE, a, b), iv)

    def __truediv__(s, o):
        return SymFloat._div(s.e, fp(o), _fiv("/", s, o), _frng(o)) if _isreal(o) else NotImplemented

    def __rtruediv__(s, o):
        return SymFloat._div(fp(o), s.e, _fiv("/", o, s), s.iv) if _isreal(o) else NotImplemented

    def __floordiv__(s, o):
        raise Unsupported("float //")

    __rfloordiv__ = __mod__ = __rmod__ = __pow__ = __rpow__ = __divmod__ = __floordiv__

    def __neg__(s):
        return mkfloat(z3.fpNeg(s.e), None if s.iv is None else (-s.iv[1], -s.iv[0]))

    def __pos__(s):
        return s

    def __abs__(s):
        iv = None
        if s.iv is not None:
            iv = (0.0 if s.iv[0] <= 0 <= s.iv[1] else min(abs(s.iv[0]), abs(s.iv[1])),
                  max(abs(s.iv[0]), abs(s.iv[1])))
        return mkfloat(z3.fpAbs(s.e), iv)

    def __lt__(s, o):
        return mkbool(z3.fpLT(s.e, fp(o))) if _isreal(o) else NotImplemented

    def __le__(s, o):
        return mkbool(z3.fpLEQ(s.e, fp(o))) if _isreal(o) else NotImplemented

    def __gt__(s, o):
        return mkbool(z3.fpGT(s.e, fp(o))) if _isreal(o) else NotImplemented

    def __ge__(s, o):
        return mkbool(z3.fpGEQ(s.e, fp(o))) if _isreal(o) else NotImplemented

    def __eq__(s, o):
        return mkbool(z3.fpEQ(s.e, fp(o))) if _isreal(o) else False

    def __ne__(s, o):
        return mkbool(z3.Not(z3.fpEQ(s.e, fp(o)))) if _isreal(o) else True

    __hash__ = None

    def __bool__(s):
        return cur().branch(z3.Not(z3.fpIsZero(s.e)))

    def _toint(s, rm):
        import math
        lim = float(1 << (W - 2))
        if s.iv is not None and -lim < s.iv[0] and s.iv[1] < lim:
            # finite and in range by interval reasoning: no NaN/inf/overflow cases to split on
            r = z3.fpRoundToIntegral(rm, s.e)
            return mkint(z3.fpToSBV(RTZ, r, z3.BitVecSort(W)), math.floor(s.iv[0]) - 1,
                         math.ceil(s.iv[1]) + 1)
        if mkbool(z3.fpIsNaN(s.e)):
            raise ValueError("cannot convert float NaN to integer")
        if mkbool(z3.fpIsInf(s.e)):
            raise OverflowError("cannot convert float infinity to integer")
        r = z3.fpRoundToIntegral(rm, s.e)
        cur().ovf.append(z3.Not(z3.And(z3.fpLT(r, z3.FPVal(lim, F64)),
                                       z3.fpGT(r, z3.FPVal(-lim, F64)))))
        return mkint(z3.fpToSBV(RTZ, r, z3.BitVecSort(W)), -(1 << (W - 2)), 1 << (W - 2))

    def __round__(s, nd=None):
        if nd is not None:
            raise Unsupported("round(x, ndigits)")
        return s._toint(RNE)

    def __int__(s):
        return s._toint(RTZ)

    __trunc__ = __int__

    def __floor__(s):
        return s._toint(z3.RTN())

    def __ceil__(s):
        return s._toint(z3.RTP())

    def __float__(s):
        return s

    def is_integer(s):
        return mkbool(z3.And(z3.Not(z3.fpIsNaN(s.e)), z3.Not(z3.fpIsInf(s.e)),
                             z3.fpEQ(z3.fpRoundToIntegral(RTZ, s.e), s.e)))

    def __repr__(s):
        return "<symfloat>"

    __str__ = __repr__

    def __format__(s, spec):
        return "<symfloat>"


# --------------------------------------------------------------------------
# byte strings (concrete length; items are python ints 0..255 or 8-bit terms)
# --------------------------------------------------------------------------
def bv8(x):
    if z3.is_expr(x):
        return x
    return z3.BitVecVal(x, 8)


def lift8(x):
    if not z3.is_expr(x):
        return x
    x = z3.simplify(x)
    if z3.is_bv_value(x):
        return x.as_long()
    return SymInt(z3.ZeroExt(W - 8, x), 0, 255)


def low8(x):
    """python-level byte value (int or SymInt, must be in range(256)) -> item"""
    if isinstance(x, SymInt):
        if x.lo < 0 or x.hi > 255:
            if (x < 0) or (x > 255):
                raise ValueError("byte must be in range(0, 256)")
        e = x.e
        if z3.is_app_of(e, z3.Z3_OP_ZERO_EXT) and e.arg(0).size() == 8:
            return e.arg(0)
        return z3.simplify(z3.Extract(7, 0, e))
    if isinstance(x, SymBool):
        return z3.If(x.e, z3.BitVecVal(1, 8), z3.BitVecVal(0, 8))
    x = int(x)
    if not 0 <= x <= 255:
        raise ValueError("byte must be in range(0, 256)")
    return x


def _items_of(o):
    if isinstance(o, _SB):
        return list(o.items)
    if isinstance(o, (bytes, bytearray, memoryview)):
        return list(bytes(o))
    return [v if z3.is_expr(v) else low8(v) for v in o]


def mkbytes(items):
    """immutable byte string: plain bytes if fully concrete"""
    items = [(_norm8(x)) for x in items]
    if all(not z3.is_expr(x) for x in items):
        return bytes(items)
    return SymBytes(items)


def _norm8(x):
    if z3.is_expr(x):
        x = z3.simplify(x)
        if z3.is_bv_value(x):
            return x.as_long()
    return x


def _cslice(k, n):
    """slice with possibly symbolic bounds: clamp first (one branch), value-fork the rest"""

    def c(v):
        if not isinstance(v, SymInt):
            return v
        if v >= n:
            return n
        if v <= -n:
            return -n if n else 0
        return concretize(v)

    step = concretize(k.step) if isinstance(k.step, SymInt) else k.step
    return slice(c(k.start), c(k.stop), step)


class _SB:
    def __len__(s):
        return len(s.items)

    def __bool__(s):
        return len(s.items) > 0

    def __getitem__(s, k):
        if isinstance(k, slice):
            return s._mk(s.items[_cslice(k, len(s.items))])
        if isinstance(k, SymInt):
            k = concretize(k)
        return lift8(s.items[k])

    def __iter__(s):
        return iter([lift8(x) for x in s.items])

    def __reversed__(s):
        return iter([lift8(x) for x in s.items[::-1]])

    def __contains__(s, v):
        if isinstance(v, int):
            return bool(s_or(*[lift8(x) == v for x in s.items]))
        return s.find(v) >= 0

    def _eqterm(s, o):
        if not isinstance(o, (bytes, bytearray, _SB, memoryview)):
            return None
        oi = _items_of(o)
        if len(oi) != len(s.items):
            return False
        if not oi:
            return True
        return mkbool(z3.And([bv8(a) == bv8(b) for a, b in zip(s.items, oi)]))

    def __eq__(s, o):
        r = s._eqterm(o)
        return False if r is None else r

    def __ne__(s, o):
        r = s._eqterm(o)
        return True if r is None else s_not(r)

    def _lex(s, o, strict_lt):
        """s < o (strict) or s <= o as a formula (bytes ordering is lexicographic)"""
        a, b = s.items, _items_of(o)
        n = min(len(a), len(b))
        # tail: all n common bytes equal -> decided by lengths
        tail = (len(a) < len(b)) if strict_lt else (len(a) <= len(b))
        e = z3.BoolVal(tail)
        for i in range(n - 1, -1, -1):
            x, y = bv8(a[i]), bv8(b[i])
            e = z3.If(x == y, e, z3.ULT(x, y))
        return mkbool(e)

    def __lt__(s, o):
        return s._lex(o, True)

    def __le__(s, o):
        return s._lex(o, False)

    def __gt__(s, o):
        return s_not(s._lex(o, False))

    def __ge__(s, o):
        return s_not(s._lex(o, True))

    __hash__ = None

    def __add__(s, o):
        return s._mk(s.items + _items_of(o))

    def __radd__(s, o):
        return s._mk(_items_of(o) + s.items)

    def __mul__(s, n):
        return s._mk(s.items * n)

    __rmul__ = __mul__

    def hex(s, *a):
        from .strings import SymText
        if a:
            raise Unsupported("bytes.hex(sep)")
        if all(not z3.is_expr(x) for x in s.items):
            return bytes(s.items).hex()
        return SymText("hex", list(s.items))

    def __repr__(s):
        return "<symbytes>"

    __str__ = __repr__

    def __format__(s, spec):
        return "<symbytes>"

    def __bytes__(s):
        return mkbytes(s.items)

    def ljust(s, width, fill=b"\x00"):
        n = len(s.items)
        if width <= n:
            return s._mk(s.items)
        return s._mk(s.items + list(fill) * (width - n))

    def rjust(s, width, fill=b"\x00"):
        n = len(s.items)
        if width <= n:
            return s._mk(s.items)
        return s._mk(list(fill) * (width - n) + s.items)

    def startswith(s, p):
        p = _items_of(p)
        if len(p) > len(s.items):
            return False
        return bool(s._mk(s.items[:len(p)]) == mkbytes(p))

    def find(s, sub, start=None, end=None):
        n = len(s.items)
        sl = slice(start, end).indices(n)
        if isinstance(sub, int):
            sub = bytes([sub])
        sub_items = _items_of(sub)
        m = len(sub_items)
        i = sl[0]
        while i + m <= sl[1]:
            if mkbytes(s.items[i:i + m]) == mkbytes(sub_items):
                return i
            i += 1
        return -1

    def index(s, sub, start=None, end=None):
        r = s.find(sub, start, end)
        if r < 0:
            raise ValueError("subsection not found")
        return r

    def decode(s, encoding="utf-8", errors="strict"):
        from . import strings
        return strings.decode(s, encoding, errors)


class SymBytes(_SB):
    __class__ = property(lambda s: bytes)

    def __init__(s, items):
        s.items = list(items)

    @staticmethod
    def _mk(items):
        return mkbytes(items)


class SymByteArray(_SB):
    __class__ = property(lambda s: bytearray)

    def __init__(s, items=()):
        s.items = _items_of(items)

    @staticmethod
    def _mk(items):
        return SymByteArray([_norm8(x) for x in items])

    def __iadd__(s, o):
        s.items += _items_of(o)
        return s

    def extend(s, o):
        s.items += _items_of(o)

    def append(s, v):
        s.items.append(low8(v))

    def __setitem__(s, k, v):
        if isinstance(k, slice):
            s.items[_cslice(k, len(s.items))] = _items_of(v)
        else:
            if isinstance(k, SymInt):
                k = concretize(k)
            s.items[k] = _norm8(low8(v))

    def __delitem__(s, k):
        if isinstance(k, slice):
            del s.items[_cslice(k, len(s.items))]
        else:
            del s.items[concretize(k) if isinstance(k, SymInt) else k]

    def copy(s):
        return SymByteArray(s.items)

    def clear(s):
        s.items = []

    def __bytes__(s):
        return mkbytes(s.items)


def frozen(b):
    """immutable copy of a (possibly symbolic) byte string"""
    if isinstance(b, _SB):
        return mkbytes(b.items)
    return bytes(b)


def is_symbolic(x):
    if isinstance(x, (SymInt, SymFloat, SymBool)):
        return True
    if isinstance(x, _SB):
        return any(z3.is_expr(i) for i in x.items)
    from .strings import SymStr
    if isinstance(x, SymStr):
        return True
    if isinstance(x, (list, tuple)):
        return any(is_symbolic(i) for i in x)
    if isinstance(x, dict):
        return any(is_symbolic(i) for i in x.values())
    return False
