"""Exploration driver: depth-first by re-execution with a decision prefix, immediate
discharge of obligations, known-finding regions, concolic replay per path."""
import math
import os
import struct
import sys
import time
import traceback

import z3

from . import core, shims, fpsolve
from .core import (Ctx, Abort, Inconclusive, SymInt, SymFloat, SymBool, SymBytes, SymByteArray, _SB,
                   mkbool, boolterm)
from .strings import SymStr


class AssumptionFailed(BaseException):
    pass


class RequireFailed(BaseException):
    def __init__(self, label):
        super().__init__(label)
        self.label = label


# ---------------------------------------------------------------------------
# value (de)serialisation for replays and observation comparison
# ---------------------------------------------------------------------------
def jsonable(v):
    if isinstance(v, bool) or v is None or isinstance(v, str):
        return v
    if isinstance(v, int):
        return int(v)
    if isinstance(v, float):
        if math.isnan(v):
            return {"float": "nan"}
        return {"float": v.hex()}
    if isinstance(v, (bytes, bytearray)):
        return {"hex": bytes(v).hex()}
    if isinstance(v, (list, tuple)):
        return [jsonable(x) for x in v]
    if isinstance(v, dict):
        return {str(k): jsonable(x) for k, x in v.items()}
    return {"repr": repr(v)}


def unjson(v):
    if isinstance(v, dict):
        if set(v) == {"float"}:
            return float("nan") if v["float"] == "nan" else float.fromhex(v["float"])
        if set(v) == {"hex"}:
            return bytes.fromhex(v["hex"])
        return {k: unjson(x) for k, x in v.items()}
    if isinstance(v, list):
        return [unjson(x) for x in v]
    return v


def evaluate(v, model):
    """symbolic observation -> concrete python value under a model"""
    if isinstance(v, SymBool):
        return z3.is_true(model.eval(v.e, model_completion=True))
    if isinstance(v, SymInt):
        return model.eval(v.e, model_completion=True).as_signed_long()
    if isinstance(v, SymFloat):
        return core.fpval_to_float(model.eval(v.e, model_completion=True))
    if isinstance(v, SymStr):
        return v.concrete(model)
    if isinstance(v, _SB):
        return bytes(
            model.eval(core.bv8(b), model_completion=True).as_long() if z3.is_expr(b) else b
            for b in v.items)
    if isinstance(v, (bytes, bytearray)):
        return bytes(v)
    if isinstance(v, (list, tuple)):
        return [evaluate(x, model) for x in v]
    if isinstance(v, dict):
        return {str(k): evaluate(x, model) for k, x in v.items()}
    if isinstance(v, float) and not isinstance(v, SymFloat):
        return float(v)
    if isinstance(v, bool) or v is None or isinstance(v, str):
        return v
    if isinstance(v, int):
        return int(v)
    return {"repr": repr(v)}


def normal(v):
    """concrete observation -> canonical comparable value"""
    if isinstance(v, (bytes, bytearray)):
        return bytes(v)
    if isinstance(v, (list, tuple)):
        return [normal(x) for x in v]
    if isinstance(v, dict):
        return {str(k): normal(x) for k, x in v.items()}
    if isinstance(v, bool) or v is None or isinstance(v, str):
        return v
    if isinstance(v, int):
        return int(v)
    if isinstance(v, float):
        return float(v)
    return {"repr": repr(v)}


def same(a, b):
    if isinstance(a, float) and isinstance(b, float):
        if math.isnan(a) and math.isnan(b):
            return True
        return struct.pack(">d", a) == struct.pack(">d", b)
    if isinstance(a, float) or isinstance(b, float):
        # int vs float observations: compare numerically and by type
        return type(a) is type(b) and a == b
    if isinstance(a, list) and isinstance(b, list):
        return len(a) == len(b) and all(same(x, y) for x, y in zip(a, b))
    if isinstance(a, dict) and isinstance(b, dict):
        return a.keys() == b.keys() and all(same(a[k], b[k]) for k in a)
    return type(a) is type(b) and a == b


# ---------------------------------------------------------------------------
# the API a harness sees
# ---------------------------------------------------------------------------
class Sx:
    def __init__(self, ctx=None, values=None, findings=(), cfg=None):
        self.ctx = ctx
        self.sym = ctx is not None
        self.values = values or {}
        self.inputs = {}  # name -> ("int", term, signed) | ("bytes", [terms]) | ("float", term) ...
        self.obs = {}
        self.covered = set()
        self.obligations = 0
        self.discharged = 0
        self.by_rewriting = 0  # obligations that z3's simplifier reduced to true (no query needed)
        self.violations = []  # dicts
        self.known_hits = []  # dicts
        self.findings = findings
        self.cfg = cfg or {}
        self.assumptions = 0

    # ---- inputs
    def int(self, name, lo, hi):
        assert lo <= hi
        if not self.sym:
            v = int(self.values[name])
            if not lo <= v <= hi:
                raise AssumptionFailed(f"{name} out of declared range")
            return v
        signed = lo < 0
        bits = max(lo.bit_length(), hi.bit_length()) + (1 if signed else 0)
        bits = max(bits, 1)
        assert bits < core.W, "input wider than carrier"
        t = z3.BitVec(name, bits)
        self.ctx.vars[name] = t
        self.inputs[name] = ("int", t, signed)
        e = z3.SignExt(core.W - bits, t) if signed else z3.ZeroExt(core.W - bits, t)
        full_lo = -(1 << (bits - 1)) if signed else 0
        full_hi = (1 << (bits - 1)) - 1 if signed else (1 << bits) - 1
        if lo != full_lo:
            self.ctx.add(e >= lo)
        if hi != full_hi:
            self.ctx.add(e <= hi)
        self.ctx.model = None
        return SymInt(e, lo, hi)

    def bool(self, name):
        if not self.sym:
            return bool(self.values[name])
        t = z3.Bool(name)
        self.ctx.vars[name] = t
        self.inputs[name] = ("bool", t)
        return SymBool(t)

    def bytes(self, name, n, mutable=False):
        if not self.sym:
            v = bytes(self.values[name])
            assert len(v) == n
            return bytearray(v) if mutable else v
        ts = [z3.BitVec(f"{name}[{i}]", 8) for i in range(n)]
        for t in ts:
            self.ctx.vars[str(t)] = t
        self.inputs[name] = ("bytes", ts)
        if mutable:
            return SymByteArray(ts)
        return SymBytes(ts) if n else b""

    def float64(self, name, allow_nan=False, allow_inf=True):
        if not self.sym:
            return float(self.values[name])
        t = z3.FP(name, core.F64)
        self.ctx.vars[name] = t
        self.inputs[name] = ("float", t)
        if not allow_nan:
            self.ctx.add(z3.Not(z3.fpIsNaN(t)))
        if not allow_inf:
            self.ctx.add(z3.Not(z3.fpIsInf(t)))
        self.ctx.has_fp = True
        self.ctx.model = None
        return SymFloat(t)

    def choice(self, name, options):
        """symbolic selector over a small list (value-forked: each option is its own path set)"""
        i = self.int(name, 0, len(options) - 1)
        if self.sym:
            i = core.concretize(i)
        return options[i]

    # ---- assumptions / obligations / observations
    def assume(self, cond):
        self.assumptions += 1
        if not self.sym:
            if not cond:
                raise AssumptionFailed("assumption")
            return
        c = self.ctx
        t = z3.simplify(boolterm(cond))
        if z3.is_true(t):
            return
        if z3.is_false(t) or not c.feasible(t):
            raise Abort("assumption infeasible")
        c.add(t)
        if c._model_says(t) is not True:
            c.model = None

    def cover(self, label):
        self.covered.add(label)

    def require(self, cond, label):
        """obligation: under the current path condition, cond holds for all inputs"""
        self.obligations += 1
        self.covered.add("require:" + label)
        if not self.sym:
            if not cond:
                raise RequireFailed(label)
            return
        c = self.ctx
        t = z3.simplify(boolterm(cond))
        if z3.is_true(t):
            self.discharged += 1
            self.by_rewriting += 1
            return
        neg = z3.Not(t)
        no_ovf = [z3.Not(o) for o in c.ovf]
        st, inputs = self._decide([neg] + no_ovf)
        if st == "unsat":
            self.discharged += 1
        else:
            self._violation(label, neg, no_ovf, inputs)
        # continue under cond
        if z3.is_false(t) or not c.feasible(t):
            raise Abort("dead after failed requirement")
        c.add(t)
        if c._model_says(t) is not True:
            c.model = None

    def fail(self, label):
        """obligation that this point is unreachable"""
        self.require(False, label)

    # ---- deciding: z3 for bit-vector obligations, cvc5 (binary) when FP terms are involved
    def _decide(self, extra):
        c = self.ctx
        if c.has_fp and fpsolve.CVC5 is not None:
            st, vals = fpsolve.check(list(c.pc) + list(extra), self._varnames(),
                                     tlimit_s=getattr(c, "fp_tlimit_s", 60))
            c.queries += 1
            if st == "unsat":
                return "unsat", None
            if st == "sat":
                return "sat", self._inputs_from_values(vals)
            fpsolve.STATS["z3_fallbacks"] += 1
        r = c._check(*extra)
        if r == z3.unsat:
            if not c.has_fp:
                self._crosscheck(extra)
            return "unsat", None
        return "sat", self.model_inputs(c.sat_model())

    # ---- second solver: a seeded sample of the discharged bit-vector obligations is re-decided by
    # the z3 4.8.12 and cvc5 1.0.3 binaries from an SMT-LIB2 export (thorough tier)
    XSTATS = {"checked": 0, "agreed": 0, "inconclusive": 0, "disagreements": []}

    def _crosscheck(self, extra):
        import os
        import random
        import subprocess
        import tempfile
        rate = int(os.environ.get("VERIF_CROSSCHECK", "0"))
        if rate <= 0:
            return
        rnd = getattr(Sx, "_rnd", None)
        if rnd is None:
            rnd = Sx._rnd = random.Random(int(os.environ.get("VERIF_SEED", "0")) + os.getpid())
        if rnd.randrange(rate) != 0:
            return
        s = z3.Solver()
        for a in list(self.ctx.pc) + list(extra):
            s.add(a)
        text = "(set-logic QF_BV)\n" + s.to_smt2().replace("(set-info :status unknown)", "")
        fd, path = tempfile.mkstemp(suffix=".smt2", prefix="symx_x_")
        answers = {}
        try:
            with os.fdopen(fd, "w") as f:
                f.write(text)
            for name, cmd in (("z3-4.8.12", ["/usr/bin/z3", "-T:20", path]),
                              ("cvc5-1.0.3", ["cvc5", "--tlimit=20000", path])):
                try:
                    out = subprocess.run(cmd, capture_output=True, text=True, timeout=30).stdout
                except (subprocess.TimeoutExpired, OSError):
                    out = "unknown"
                first = out.strip().split("\n", 1)[0].strip() if out.strip() else "unknown"
                answers[name] = "unknown" if "(error" in out else first
        finally:
            os.unlink(path)
        st = Sx.XSTATS
        st["checked"] += 1
        if any(v == "sat" for v in answers.values()):
            st["disagreements"].append(f"{self.cfg.get('id')}: z3 5.1 unsat, {answers}")
        elif all(v == "unsat" for v in answers.values()):
            st["agreed"] += 1
        else:
            st["inconclusive"] += 1

    def _varnames(self):
        out = []
        for name, spec in self.inputs.items():
            if spec[0] == "bytes":
                out += [str(t) for t in spec[1]]
            else:
                out.append(name)
        return out

    def _inputs_from_values(self, vals):
        import struct
        out = {}
        for name, spec in self.inputs.items():
            if spec[0] == "int":
                v = vals.get(name)
                n = spec[1].size()
                x = v[1] if v else 0
                if spec[2] and x >= (1 << (n - 1)):
                    x -= 1 << n
                out[name] = x
            elif spec[0] == "bool":
                out[name] = bool(vals.get(name, False))
            elif spec[0] == "bytes":
                out[name] = bytes((vals.get(str(t)) or ("bv", 0, 8))[1] for t in spec[1])
            elif spec[0] == "float":
                v = vals.get(name)
                bits = v[1] if v else 0
                out[name] = struct.unpack(">d", bits.to_bytes(8, "big"))[0]
        return out

    def _violation(self, label, neg, no_ovf, inputs):
        regions = []
        for f in self.findings:
            if f["label"] != label or not _cfg_match(f.get("config", {}), self.cfg):
                continue
            regions.append((f, self._region_term(f)))
        if not regions:
            self.violations.append({"label": label, "inputs": inputs})
            return
        outside = [z3.Not(rt) for _, rt in regions]
        st, inp = self._decide([neg] + no_ovf + outside)
        if st == "sat":
            self.violations.append({"label": label, "inputs": inp})
        for f, rt in regions:
            st, inp = self._decide([neg] + no_ovf + [rt])
            if st == "sat":
                self.known_hits.append({"finding": f["id"], "label": label, "inputs": inp})

    def _region_term(self, f):
        expr = f.get("region", "True")
        ns = {"And": core.s_and, "Or": core.s_or, "Not": core.s_not, "Implies": core.s_implies,
              "cfg": self.cfg, "len": len}
        ns.update({k: v for k, v in self.cfg.items() if isinstance(k, str) and k.isidentifier()})
        for name, spec in self.inputs.items():
            if not name.isidentifier():
                continue
            if spec[0] == "int":
                t = spec[1]
                e = z3.SignExt(core.W - t.size(), t) if spec[2] else z3.ZeroExt(core.W - t.size(), t)
                ns[name] = SymInt(e)
            elif spec[0] == "bytes":
                ns[name] = SymBytes(spec[1]) if spec[1] else b""
            elif spec[0] == "bool":
                ns[name] = SymBool(spec[1])
            elif spec[0] == "float":
                ns[name] = SymFloat(spec[1])
        import re as _re

        def any_eq(pattern, value):
            """some integer input whose name matches the regex equals value"""
            hits = [ns[n] == value for n in list(ns) if isinstance(ns[n], SymInt)
                    and _re.fullmatch(pattern, n)]
            return core.s_or(*hits) if hits else False

        ns["AnyEq"] = any_eq
        try:
            v = eval(expr, {"__builtins__": {}}, ns)  # noqa: S307 - file is committed, not input
        except NameError:
            return z3.BoolVal(False)
        return boolterm(v)

    def observe(self, name, val):
        self.obs[name] = val

    def model_inputs(self, m):
        out = {}
        for name, spec in self.inputs.items():
            if spec[0] == "int":
                v = m.eval(spec[1], model_completion=True)
                out[name] = v.as_signed_long() if spec[2] else v.as_long()
            elif spec[0] == "bool":
                out[name] = z3.is_true(m.eval(spec[1], model_completion=True))
            elif spec[0] == "bytes":
                out[name] = bytes(m.eval(t, model_completion=True).as_long() for t in spec[1])
            elif spec[0] == "float":
                out[name] = core.fpval_to_float(m.eval(spec[1], model_completion=True))
        return out


def _cfg_match(pattern, cfg):
    for k, want in pattern.items():
        have = cfg.get(k)
        if isinstance(want, list):
            if have not in want:
                return False
        elif isinstance(want, dict):
            if "min" in want and not (have is not None and have >= want["min"]):
                return False
            if "max" in want and not (have is not None and have <= want["max"]):
                return False
            if "not" in want and have in want["not"]:
                return False
        elif have != want:
            return False
    return True


# ---------------------------------------------------------------------------
# one configuration
# ---------------------------------------------------------------------------
class Limits:
    def __init__(self, max_paths=20000, max_decisions=4000, timeout_ms=20000, wall_s=600):
        self.max_paths = max_paths
        self.max_decisions = max_decisions
        self.timeout_ms = timeout_ms
        self.wall_s = wall_s


def _profile_collector(store):
    def prof(frame, event, arg):
        if event == "call":
            co = frame.f_code
            fn = co.co_filename
            if "/odxtools/" in fn and "/verif/" not in fn:
                store.add(fn.split("/odxtools/", 1)[1][:-3].replace("/", ".") + "." +
                          getattr(co, "co_qualname", co.co_name))

    return prof


class Hang(BaseException):
    """a concrete run exceeded CONCRETE_LIMIT_S (the descriptions and inputs are tiny: every
    terminating run takes milliseconds)"""


CONCRETE_LIMIT_S = int(os.environ.get("VERIF_CONCRETE_LIMIT_S", "20"))


def run_concrete(run, cfg, env, values):
    """run the harness on plain python values against the unpatched library.
    returns (status, detail, obs): status in ok / require:<label> / assumption / escape;
    a run that does not finish within CONCRETE_LIMIT_S is reported as require:terminates"""
    import signal
    import threading
    sx = Sx(ctx=None, values=values, cfg=cfg)
    timed = threading.current_thread() is threading.main_thread()

    def _alarm(signum, frame):
        raise Hang()
    with shims.unpatched():
        if timed:
            old = signal.signal(signal.SIGALRM, _alarm)
            signal.alarm(CONCRETE_LIMIT_S)
        try:
            run(sx, cfg, env)
            return "ok", None, {k: normal(v) for k, v in sx.obs.items()}, sx
        except Hang:
            return "require:terminates", f"no result within {CONCRETE_LIMIT_S}s", \
                {k: normal(v) for k, v in sx.obs.items()}, sx
        except RequireFailed as e:
            return "require:" + e.label, None, {k: normal(v) for k, v in sx.obs.items()}, sx
        except AssumptionFailed as e:
            return "assumption", str(e), {}, sx
        except Exception as e:  # noqa: BLE001
            return "escape", f"{type(e).__name__}: {e}", {}, sx
        finally:
            if timed:
                signal.alarm(0)
                signal.signal(signal.SIGALRM, old)


def explore_config(run, cfg, env, limits=None, findings=(), width=80, collect_functions=True,
                   concolic=True):
    """explore every path of run(sx, cfg, env); returns a picklable dict"""
    limits = limits or Limits()
    core.set_width(width)
    t0 = time.time()
    cvc5_before = dict(fpsolve.STATS)
    res = {
        "cfg": cfg, "paths": 0, "aborted": 0, "decisions": 0, "queries": 0, "solver_s": 0.0,
        "obligations": 0, "discharged": 0, "by_rewriting": 0, "violations": [], "known": [], "inconclusive": [],
        "divergences": [], "concolic": 0, "covered": set(), "functions": set(), "forks": {},
        "errors": [], "samples": [], "assumptions": 0, "has_fp": False,
    }
    prefix = []
    first = True
    while True:
        if res["paths"] >= limits.max_paths:
            res["inconclusive"].append(f"more than {limits.max_paths} paths")
            break
        if time.time() - t0 > limits.wall_s:
            res["inconclusive"].append(f"wall budget {limits.wall_s}s exhausted after "
                                       f"{res['paths']} paths")
            break
        ctx = Ctx(prefix, timeout_ms=limits.timeout_ms, max_decisions=limits.max_decisions)
        Ctx.cur = ctx
        sx = Sx(ctx=ctx, findings=findings, cfg=cfg)
        status = "ok"
        if first and collect_functions:
            sys.setprofile(_profile_collector(res["functions"]))
        try:
            run(sx, cfg, env)
        except Abort:
            status = "abort"
        except Inconclusive as e:
            status = "inconclusive"
            where = _where()
            hang = None
            if "decisions on one path" in e.reason and \
                    not any(v["label"] == "terminates" for v in res["violations"]):
                # termination witness: the inputs of this path, run on the unpatched library
                try:
                    Ctx.cur = None
                    values = sx.model_inputs(ctx.get_model())
                    st, _, _, _ = run_concrete(run, cfg, env, values)
                    if st == "require:terminates":
                        hang = values
                except (Abort, Inconclusive):
                    pass
                except Exception as e2:  # noqa: BLE001
                    res["errors"].append(f"termination witness crashed: {type(e2).__name__}: {e2}")
            if hang is not None:
                if not any(v["label"] == "terminates" for v in res["violations"]):
                    res["violations"].append({"label": "terminates", "inputs": hang,
                                              "path": res["paths"] + 1})
            else:
                res["inconclusive"].append(f"{e.reason} [{where}]")
        except (RequireFailed, AssumptionFailed) as e:
            status = "error"
            res["errors"].append(f"concrete-mode exception in symbolic run: {e!r}")
        except z3.Z3Exception as e:
            status = "error"
            res["errors"].append(f"z3 exception: {e} [{_where()}]")
        except RecursionError:
            status = "inconclusive"
            res["inconclusive"].append("recursion limit")
        except Exception as e:  # noqa: BLE001 - exception escaping the harness: harness bug
            status = "error"
            res["errors"].append(f"escaped harness: {type(e).__name__}: {e} [{_where()}]")
        finally:
            if first and collect_functions:
                sys.setprofile(None)
            first = False
        Ctx.cur = None

        # overflow side conditions: inconclusive (width) if some overflow is feasible
        if status == "ok" and ctx.ovf:
            try:
                if ctx._check(z3.Or(ctx.ovf)) == z3.sat:
                    status = "inconclusive"
                    res["inconclusive"].append(f"width: overflow of the {width}-bit carrier is "
                                               f"feasible on a path")
            except Inconclusive as e:
                status = "inconclusive"
                res["inconclusive"].append(e.reason)

        res["paths"] += 1
        res["decisions"] += ctx.pos
        res["queries"] += ctx.queries
        res["solver_s"] += ctx.qtime
        res["has_fp"] = res["has_fp"] or ctx.has_fp
        for k, v in ctx.forks.items():
            res["forks"][k] = res["forks"].get(k, 0) + v
        res["assumptions"] += sx.assumptions
        if status == "abort":
            res["aborted"] += 1
        if status in ("ok", "inconclusive"):
            res["covered"] |= sx.covered
        if status == "ok":
            res["obligations"] += sx.obligations
            res["discharged"] += sx.discharged
            res["by_rewriting"] += sx.by_rewriting
        elif status == "inconclusive":
            res["obligations"] += sx.obligations  # counted, not discharged
        for v in sx.violations:
            v["path"] = res["paths"]
            res["violations"].append(v)
        for k in sx.known_hits:
            res["known"].append(k)

        # concolic replay of this path on the unpatched library
        if status == "ok" and concolic:
            try:
                m = ctx.get_model()
                values = sx.model_inputs(m)
                exp = {k: normal(evaluate(v, m)) for k, v in sx.obs.items()}
                st, detail, got, _ = run_concrete(run, cfg, env, values)
                res["concolic"] += 1
                if st.startswith("require:witness:"):
                    # witness-level obligation (only checkable on concrete values, e.g. text log
                    # parsing): its failure on this path's witness is a violation candidate
                    res["violations"].append({"label": st[len("require:"):], "inputs": values,
                                              "path": res["paths"]})
                elif st.startswith("require:"):
                    # the unpatched library fails an obligation on this path's own witness although
                    # the symbolic run passed it (e.g. an error path whose message formatting only
                    # fails on a real number): a violation observed on the real code (one report
                    # per label and configuration)
                    if not any(v["label"] == st[len("require:"):] for v in res["violations"]):
                        res["violations"].append({"label": st[len("require:"):], "inputs": values,
                                                  "path": res["paths"], "concrete_only": True})
                elif st != "ok":
                    res["divergences"].append({"inputs": jsonable(values), "kind": st,
                                               "detail": detail})
                elif not same(exp, got):
                    diff = [k for k in set(exp) | set(got)
                            if k not in exp or k not in got or not same(exp[k], got[k])]
                    res["divergences"].append({
                        "inputs": jsonable(values), "kind": "observation",
                        "detail": {k: [jsonable(exp.get(k)), jsonable(got.get(k))] for k in diff}})
                if len(res["samples"]) < 3:
                    res["samples"].append({"inputs": jsonable(values), "observed": jsonable(got),
                                           "decisions": ctx.pos})
            except (Abort, Inconclusive) as e:
                res["inconclusive"].append(f"concolic model: {e}")
            except Exception as e:  # noqa: BLE001
                res["errors"].append(f"concolic replay crashed: {type(e).__name__}: {e}")

        # backtrack
        prefix = ctx.prefix[:ctx.pos] if ctx.pos < len(ctx.prefix) else ctx.prefix
        while prefix and not prefix[-1][1]:
            prefix.pop()
        if not prefix:
            break
        last = prefix[-1]
        prefix[-1] = [not last[0], False, last[2]]

    res["wall_s"] = time.time() - t0
    res["crosscheck"] = dict(Sx.XSTATS, disagreements=list(Sx.XSTATS["disagreements"]))
    Sx.XSTATS.update(checked=0, agreed=0, inconclusive=0, disagreements=[])
    res["cvc5_queries"] = fpsolve.STATS["cvc5_queries"] - cvc5_before["cvc5_queries"]
    res["cvc5_s"] = fpsolve.STATS["cvc5_s"] - cvc5_before["cvc5_s"]
    res["covered"] = sorted(res["covered"])
    res["functions"] = sorted(res["functions"])
    return res


def _where():
    tb = traceback.extract_tb(sys.exc_info()[2])
    for fr in reversed(tb):
        if "/symx/" not in fr.filename and "/models/" not in fr.filename:
            return f"{fr.filename.rsplit('/', 1)[-1]}:{fr.lineno}"
    return "?"
