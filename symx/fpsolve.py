"""Decide an obligation that contains floating-point terms with the cvc5 binary (10-40x faster
than z3 on QF_BVFP here), from an SMT-LIB2 export of a FRESH z3 solver; z3 is the fallback."""
import os
import re
import shutil
import subprocess
import tempfile
import time

import z3

CVC5 = shutil.which("cvc5")
STATS = {"cvc5_queries": 0, "cvc5_s": 0.0, "z3_fallbacks": 0}


def _parse_values(txt):
    """parse the (get-value ...) answer into {name: python int (bit pattern) | bool}"""
    out = {}
    # ((name value) (name value) ...)
    for m in re.finditer(r"\(\s*(\|[^|]+\||[^\s()]+)\s+((?:\(fp [^)]*\))|(?:\(_ [^)]*\))|[^\s()]+)\s*\)", txt):
        name, val = m.group(1), m.group(2)
        name = name.strip("|")
        out[name] = _val(val)
    return out


def _val(v):
    v = v.strip()
    if v == "true":
        return True
    if v == "false":
        return False
    if v.startswith("#b"):
        return ("bv", int(v[2:], 2), len(v) - 2)
    if v.startswith("#x"):
        return ("bv", int(v[2:], 16), 4 * (len(v) - 2))
    m = re.match(r"\(_ bv(\d+) (\d+)\)", v)
    if m:
        return ("bv", int(m.group(1)), int(m.group(2)))
    m = re.match(r"\(fp (#b[01]+) (#b[01]+) (#b[01]+)\)", v)
    if m:
        s, e, f = (x[2:] for x in m.groups())
        return ("fp", int(s + e + f, 2), len(s + e + f))
    m = re.match(r"\(_ ([+-])(oo|zero) (\d+) (\d+)\)", v)
    if m:
        sign, kind, eb, sb = m.group(1), m.group(2), int(m.group(3)), int(m.group(4))
        bits = (1 << (eb + sb - 1)) if sign == "-" else 0
        if kind == "oo":
            bits |= ((1 << eb) - 1) << (sb - 1)
        return ("fp", bits, eb + sb)
    m = re.match(r"\(_ NaN (\d+) (\d+)\)", v)
    if m:
        eb, sb = int(m.group(1)), int(m.group(2))
        return ("fp", (((1 << eb) - 1) << (sb - 1)) | (1 << (sb - 2)), eb + sb)
    return ("raw", v, 0)


def check(assertions, variables, tlimit_s=60):
    """-> ("unsat"|"sat"|"unknown", values) ; values: {name: ("bv"|"fp", bits, width) | bool}"""
    if CVC5 is None:
        return "unknown", {}
    s = z3.Solver()
    for a in assertions:
        s.add(a)
    smt = s.to_smt2().replace("(set-info :status unknown)", "")
    declared = set(re.findall(r"\(declare-fun (\|[^|]+\||\S+) \(\)", smt))
    declared = {d.strip("|") for d in declared}
    variables = [v for v in variables if v in declared]
    names = " ".join(f"|{v}|" if not re.match(r"^[A-Za-z_][A-Za-z0-9_]*$", v) else v
                     for v in variables)
    text = "(set-logic QF_BVFP)\n(set-option :produce-models true)\n" + smt
    if variables:
        text += f"\n(get-value ({names}))\n"
    fd, path = tempfile.mkstemp(suffix=".smt2", prefix="symx_", dir=os.environ.get("TMPDIR"))
    t0 = time.time()
    try:
        with os.fdopen(fd, "w") as f:
            f.write(text)
        try:
            p = subprocess.run([CVC5, f"--tlimit={int(tlimit_s * 1000)}", path],
                               capture_output=True, text=True, timeout=tlimit_s + 10)
            out = p.stdout.strip()
            if os.environ.get("SYMX_DEBUG") and not out.startswith(("sat", "unsat")):
                print("cvc5 stdout:", out[:300], "stderr:", p.stderr[:300])
                shutil.copy(path, "/tmp/symx_unknown.smt2")
        except subprocess.TimeoutExpired:
            out = "unknown"
    finally:
        os.unlink(path)
        STATS["cvc5_queries"] += 1
        STATS["cvc5_s"] += time.time() - t0
    first = out.split("\n", 1)[0].strip() if out else "unknown"
    if first not in ("sat", "unsat") and os.environ.get("SYMX_DEBUG"):
        dbg = "/tmp/symx_unknown.smt2"
        open(dbg, "w").write(text)
        print("cvc5 says:", out[:300], "->", dbg)
    if first == "unsat":
        # the only tolerated error is the answer to (get-value) after unsat
        errs = [ln for ln in out.split("\n")[1:] if "(error" in ln]
        if all("get value" in e.lower() or "get-value" in e.lower() or "model" in e.lower()
               for e in errs):
            return "unsat", {}
        return "unknown", {}
    if "(error" in out:
        return "unknown", {}
    if first == "sat":
        rest = out.split("\n", 1)[1] if "\n" in out else ""
        return "sat", _parse_values(rest)
    return "unknown", {}
