"""Stubs that let the real odxtools code run on symbolic proxies.  All of them are
module-global rebinding done at analysis time (nothing under /repo is edited) and
all of them are undone by `unpatched()` for the concolic replay.

 * `int`, `float`, `bytes`, `bytearray` as seen by odxtools modules: thin shims that
   keep the proxy instead of copying its C-level placeholder;
 * `bitstruct` in encodestate/decodestate/isotp_state_machine: models.bitstruct_model;
 * EncodeState.__post_init__: coded_message/used_mask become SymByteArray;
 * DataType.make_from: keeps a proxy that already has the target type.
"""
import builtins
import contextlib
import sys

from . import core
from .core import SymInt, SymFloat, SymBool, SymBytes, SymByteArray, _SB, Unsupported
from .strings import SymStr

_int, _float, _bytes, _bytearray = int, float, bytes, bytearray


class _Meta(type):
    def __instancecheck__(cls, x):
        return isinstance(x, cls._real)

    def __subclasscheck__(cls, x):
        return issubclass(x, cls._real)

    def __getattr__(cls, name):
        return getattr(cls._real, name)

    def __eq__(cls, o):
        return o is cls or o is cls._real

    def __hash__(cls):
        return hash(cls._real)

    def __repr__(cls):
        return repr(cls._real)


class IntShim(metaclass=_Meta):
    _real = _int

    def __new__(cls, x=0, *a, **k):
        if a or k:
            if isinstance(x, SymStr):
                raise Unsupported("int(symbolic string, base)")
            if type(x).__name__ == "SymText":
                base = a[0] if a else k.get("base")
                if x.kind == "dec" and not (x.up or x.lo) and base == 10:
                    return x.payload
                if x.kind == "dec" and not (x.up or x.lo) and base == 0:
                    # Python literal rules: a decimal literal has no leading zeros unless it is zero
                    if x.pad and x.payload != 0:
                        raise ValueError("invalid literal for int() with base 0")
                    return x.payload
                raise Unsupported("int(symbolic text, base)")
            return _int(x, *a, **k)
        if isinstance(x, SymInt):
            return x
        if isinstance(x, SymBool):
            return core.mkint(core.bv(x), 0, 1)
        if isinstance(x, SymFloat):
            return x.__int__()
        if isinstance(x, (SymStr, _SB)):
            raise Unsupported("int() of symbolic text")
        if type(x).__name__ == "SymText":
            if x.kind == "dec" and not (x.up or x.lo):
                return x.payload  # int(str(n)) == n
            raise Unsupported("int() of symbolic text")
        return _int(x)

    from_bytes = staticmethod(core.int_from_bytes)


class FloatShim(metaclass=_Meta):
    _real = _float

    def __new__(cls, x=0.0):
        if isinstance(x, SymFloat):
            return x
        if isinstance(x, (SymInt, SymBool)):
            return core.tofloat(x) if isinstance(x, SymInt) else core.mkfloat(core.fp(x))
        if isinstance(x, SymStr):
            raise Unsupported("float() of symbolic text")
        if type(x).__name__ == "SymText":
            if x.kind == "dec" and not (x.up or x.lo):
                return core.tofloat(x.payload)  # float(str(n)) == float(n)
            raise Unsupported("float() of symbolic text")
        return _float(x)


class BytesShim(metaclass=_Meta):
    _real = _bytes

    def __new__(cls, x=b"", *a, **k):
        if isinstance(x, SymStr):
            if not a and "encoding" not in k:
                raise TypeError("string argument without an encoding")
            return x.encode(*a, **k)
        if a or k:
            return _bytes(x, *a, **k)
        if isinstance(x, _SB):
            return core.mkbytes(x.items)
        if isinstance(x, (list, tuple)) and any(isinstance(i, (SymInt, SymBool)) for i in x):
            return core.mkbytes([core.low8(i) for i in x])
        return _bytes(x)


class ByteArrayShim(metaclass=_Meta):
    _real = _bytearray

    def __new__(cls, x=b"", *a, **k):
        if a or k:
            return _bytearray(x, *a, **k)
        if isinstance(x, _SB):
            return SymByteArray(x.items)
        if core.Ctx.cur is not None:
            # in symbolic mode every mutable buffer is a SymByteArray, so that a later
            # `buf += symbolic_bytes` stays in place
            if isinstance(x, SymInt):
                x = core.concretize(x)
            if isinstance(x, _int):
                return SymByteArray([0] * x)
            return SymByteArray(core._items_of(x))
        return _bytearray(x)


class StrShim(metaclass=_Meta):
    _real = str

    def __new__(cls, x="", *a, **k):
        from .strings import SymText
        if a or k:
            return str(x, *a, **k)
        if isinstance(x, SymInt):
            return SymText("dec", x)
        if isinstance(x, (SymStr, SymText)):
            return x
        if isinstance(x, _SB):
            # "b'..'" of symbolic bytes: opaque text that can be formatted into a message (as a
            # placeholder; the concolic replay prints the real one) but not compared or measured
            return SymText("bytesrepr", x)
        if isinstance(x, SymFloat):
            raise Unsupported("str() of a symbolic float")
        return str(x)


def hex_shim(x):
    from .strings import SymText
    if isinstance(x, SymInt):
        if x.lo < 0:
            raise Unsupported("hex() of a possibly negative symbolic int")
        return SymText("hexnum", x)
    return hex(x)


_SHIMS = {"hex": hex_shim, "str": StrShim, "int": IntShim, "float": FloatShim, "bytes": BytesShim, "bytearray": ByteArrayShim}

_saved = []  # (obj, attr, had, old)
_active = {"on": False}


def _set(obj, attr, val):
    d = obj.__dict__
    had = attr in d
    _saved.append((obj, attr, had, d.get(attr)))
    setattr(obj, attr, val)


def install(bitstruct_model, symbolic_encode_state=True, pure_model=None, extra_modules=None):
    """rebinding for every odxtools module currently imported.  odxtools.isotp_state_machine
    imports the pure-python `bitstruct` unconditionally, so it gets the "py" variant.
    extra_modules: a second copy of the library ({name: module}, see harness/c17.py)"""
    assert not _active["on"]
    import odxtools  # noqa
    import odxtools.encodestate  # noqa
    import odxtools.decodestate  # noqa
    import odxtools.odxtypes  # noqa
    import odxtools.isotp_state_machine  # noqa
    _install_on({k: v for k, v in sys.modules.items()
                 if (k == "odxtools" or k.startswith("odxtools.")) and v is not None},
                bitstruct_model, symbolic_encode_state, pure_model)
    if extra_modules:
        _install_on(extra_modules, bitstruct_model, symbolic_encode_state, pure_model)
    _active["on"] = True


def _install_on(modules, bitstruct_model, symbolic_encode_state, pure_model):
    es = modules["odxtools.encodestate"]
    ds = modules["odxtools.decodestate"]
    ot = modules["odxtools.odxtypes"]
    for name, mod in list(modules.items()):
        if mod is None:
            continue
        for k, v in _SHIMS.items():
            if k == "float" and name == "odxtools.odxtypes":
                continue  # DataType.isinstance compares `expected_type is float`
            _set(mod, k, v)
    for mod in (es, ds):
        _set(mod, "bitstruct", bitstruct_model)
    if "odxtools.isotp_state_machine" in modules:
        _set(modules["odxtools.isotp_state_machine"], "bitstruct", pure_model or bitstruct_model)

    if symbolic_encode_state:
        orig_post = es.EncodeState.__post_init__

        def __post_init__(self):
            if core.Ctx.cur is not None:
                self.coded_message = SymByteArray(self.coded_message)
                self.used_mask = SymByteArray(self.used_mask)
            orig_post(self)

        _set(es.EncodeState, "__post_init__", __post_init__)

    orig_make_from = ot.DataType.make_from

    def make_from(self, value):
        if isinstance(value, SymInt) and self.python_type is _int:
            return value
        if isinstance(value, (SymInt, SymFloat)) and self.python_type is _float:
            return FloatShim(value)
        if isinstance(value, SymFloat) and self.python_type is _int:
            return IntShim(value)
        if isinstance(value, _SB) and self.python_type is _bytearray:
            return SymByteArray(value.items)
        if isinstance(value, SymStr):
            if self.python_type is str:
                return value
            raise Unsupported("make_from(symbolic string)")
        return orig_make_from(self, value)

    _set(ot.DataType, "make_from", make_from)


def uninstall():
    while _saved:
        obj, attr, had, old = _saved.pop()
        if had:
            setattr(obj, attr, old)
        else:
            delattr(obj, attr)
    _active["on"] = False


@contextlib.contextmanager
def unpatched():
    """temporarily restore the unmodified library (for concrete replays)"""
    if not _active["on"]:
        yield
        return
    cur_vals = []
    for obj, attr, had, old in _saved:
        cur_vals.append((obj, attr, obj.__dict__.get(attr)))
    # restore originals (iterate in reverse so the first saved value wins)
    for obj, attr, had, old in reversed(_saved):
        if had:
            setattr(obj, attr, old)
        else:
            try:
                delattr(obj, attr)
            except AttributeError:
                pass
    saved_ctx = core.Ctx.cur
    core.Ctx.cur = None
    try:
        yield
    finally:
        core.Ctx.cur = saved_ctx
        for obj, attr, val in cur_vals:
            setattr(obj, attr, val)
