"""Symbolic strings on the decode side: a SymStr is 'the strict decoding of these
(symbolic) bytes under this codec'.  bytes.decode() forks on the validity
predicate of the codec and raises UnicodeDecodeError on the invalid branch,
exactly as CPython does; string *contents* are never enumerated."""
import codecs
import z3

from . import core
from .core import Unsupported, bv8, mkbool, cur


def _norm(enc):
    return codecs.lookup(enc).name  # 'utf-8', 'utf-16-be', 'iso8859-1', 'iso8859-2', 'cp1252'


def _rng(b, lo, hi):
    return z3.And(z3.UGE(b, lo), z3.ULE(b, hi))


def utf8_valid(bs):
    n = len(bs)
    memo = {}

    def cont(i):
        return _rng(bs[i], 0x80, 0xBF)

    def v(i):
        if i >= n:
            return z3.BoolVal(i == n)
        if i in memo:
            return memo[i]
        b = bs[i]
        alts = [z3.And(z3.ULE(b, 0x7F), v(i + 1))]
        if i + 1 < n:
            alts.append(z3.And(_rng(b, 0xC2, 0xDF), cont(i + 1), v(i + 2)))
        if i + 2 < n:
            alts.append(z3.And(b == 0xE0, _rng(bs[i + 1], 0xA0, 0xBF), cont(i + 2), v(i + 3)))
            alts.append(
                z3.And(z3.Or(_rng(b, 0xE1, 0xEC), _rng(b, 0xEE, 0xEF)), cont(i + 1), cont(i + 2),
                       v(i + 3)))
            alts.append(z3.And(b == 0xED, _rng(bs[i + 1], 0x80, 0x9F), cont(i + 2), v(i + 3)))
        if i + 3 < n:
            alts.append(
                z3.And(b == 0xF0, _rng(bs[i + 1], 0x90, 0xBF), cont(i + 2), cont(i + 3), v(i + 4)))
            alts.append(
                z3.And(_rng(b, 0xF1, 0xF3), cont(i + 1), cont(i + 2), cont(i + 3), v(i + 4)))
            alts.append(
                z3.And(b == 0xF4, _rng(bs[i + 1], 0x80, 0x8F), cont(i + 2), cont(i + 3), v(i + 4)))
        memo[i] = z3.Or(alts)
        return memo[i]

    return v(0)


def utf16_valid(bs, big):
    n = len(bs)
    if n % 2:
        return z3.BoolVal(False)
    hi = [bs[2 * i] if big else bs[2 * i + 1] for i in range(n // 2)]
    memo = {}

    def is_hs(i):
        return _rng(hi[i], 0xD8, 0xDB)

    def is_ls(i):
        return _rng(hi[i], 0xDC, 0xDF)

    def v(i):
        if i >= len(hi):
            return z3.BoolVal(True)
        if i in memo:
            return memo[i]
        alts = [z3.And(z3.Not(is_hs(i)), z3.Not(is_ls(i)), v(i + 1))]
        if i + 1 < len(hi):
            alts.append(z3.And(is_hs(i), is_ls(i + 1), v(i + 2)))
        memo[i] = z3.Or(alts)
        return memo[i]

    return v(0)


def cp1252_valid(bs):
    return z3.And([z3.And([b != u for u in (0x81, 0x8D, 0x8F, 0x90, 0x9D)]) for b in bs] or [True])


def valid_term(items, enc):
    bs = [bv8(x) for x in items]
    if enc == "utf-8":
        return utf8_valid(bs)
    if enc == "utf-16-be":
        return utf16_valid(bs, True)
    if enc == "utf-16-le":
        return utf16_valid(bs, False)
    if enc in ("iso8859-1", "iso8859-2"):
        return z3.BoolVal(True)
    if enc == "cp1252":
        return cp1252_valid(bs)
    raise Unsupported(f"codec {enc}")


def decode(sb, encoding, errors):
    enc = _norm(encoding)
    ok = mkbool(valid_term(sb.items, enc))
    if ok:
        return SymStr(list(sb.items), enc, lossy=False)
    if errors == "strict":
        raise UnicodeDecodeError(enc, b"", 0, 1, "invalid data (symbolic)")
    if errors in ("replace", "ignore"):
        return SymStr(list(sb.items), enc, lossy=errors)
    raise Unsupported(f"decode errors={errors}")


class SymStr:
    """strict (or lossy) decoding of symbolic bytes"""
    __class__ = property(lambda s: str)

    def __init__(s, items, enc, lossy=False):
        s.items = items
        s.enc = enc
        s.lossy = lossy

    def _eq(s, o):
        if isinstance(o, SymStr):
            if (s.lossy or o.lossy) and s.lossy == o.lossy and s.enc == o.enc and \
               len(s.items) == len(o.items):
                # lossy decoding is a function of the bytes: identical bytes give identical text
                same = core.mkbytes(s.items) == core.mkbytes(o.items)
                if same is True:
                    return True
            if s.lossy or o.lossy or s.enc != o.enc:
                raise Unsupported("comparison of lossy / differently coded symbolic strings")
            if len(s.items) != len(o.items):
                return False
            return core.mkbytes(s.items) == core.mkbytes(o.items)
        if not isinstance(o, str):
            return False
        if s.lossy:
            raise Unsupported("comparison of a lossy symbolic string")
        try:
            raw = o.encode(s.enc)
        except UnicodeEncodeError:
            return False
        if len(raw) != len(s.items):
            return False
        return core.mkbytes(s.items) == raw

    def __eq__(s, o):
        return s._eq(o)

    def __ne__(s, o):
        return core.s_not(s._eq(o))

    def __hash__(s):
        raise Unsupported("hash of a symbolic string")

    def __len__(s):
        if s.lossy:
            raise Unsupported("len of a lossy symbolic string")
        if s.enc in ("iso8859-1", "iso8859-2", "cp1252"):
            return len(s.items)
        one, zero = z3.BitVecVal(1, core.W), z3.BitVecVal(0, core.W)
        if s.enc == "utf-8":
            # code points = bytes that are not continuation bytes
            t = [z3.If(_rng(bv8(b), 0x80, 0xBF), zero, one) for b in s.items]
        else:
            big = s.enc == "utf-16-be"
            hi = [s.items[2 * i] if big else s.items[2 * i + 1] for i in range(len(s.items) // 2)]
            t = [z3.If(_rng(bv8(b), 0xDC, 0xDF), zero, one) for b in hi]
        if not t:
            return 0
        e = t[0]
        for x in t[1:]:
            e = e + x
        return core.concretize(core.mkint(e, 0, len(t)))

    def __bool__(s):
        return len(s.items) > 0

    def encode(s, encoding="utf-8", errors="strict"):
        if s.lossy:
            raise Unsupported("encode of a lossy symbolic string")
        enc = _norm(encoding)
        if enc == s.enc:
            return core.mkbytes(s.items)
        if {enc, s.enc} == {"utf-16-be", "utf-16-le"}:
            sw = []
            for i in range(0, len(s.items) - 1, 2):
                sw += [s.items[i + 1], s.items[i]]
            return core.mkbytes(sw)
        raise Unsupported(f"re-encoding a symbolic string from {s.enc} to {enc}")

    def __repr__(s):
        return "<symstr>"

    __str__ = __repr__

    def __format__(s, spec):
        return "<symstr>"

    def _unsup(s, *a, **k):
        raise Unsupported("string operation on a symbolic string")

    __lt__ = __le__ = __gt__ = __ge__ = __add__ = __radd__ = __getitem__ = __iter__ = _unsup
    __contains__ = __mod__ = __mul__ = _unsup
    strip = split = startswith = endswith = find = replace = join = _unsup

    def _case(s, to_upper):
        """str.upper() / str.lower() for texts of single-byte codecs whose bytes are all ASCII
        (decided by a branch: the other side is unsupported, i.e. inconclusive)"""
        if s.lossy or s.enc not in ("iso8859-1", "iso8859-2", "cp1252", "utf-8"):
            raise Unsupported("case mapping of a symbolic string")
        ctx = core.Ctx.cur
        ascii_only = z3.And([z3.ULT(bv8(b), z3.BitVecVal(0x80, 8)) for b in s.items]) if s.items else \
            z3.BoolVal(True)
        if not ctx.branch(ascii_only):
            raise Unsupported("case mapping of a symbolic string with non-ASCII characters")
        lo, hi = (0x61, 0x7A) if to_upper else (0x41, 0x5A)
        delta = z3.BitVecVal(0x20, 8)
        out = []
        for b in s.items:
            e = bv8(b)
            m = z3.If(_rng(e, lo, hi), (e - delta) if to_upper else (e + delta), e)
            out.append(z3.simplify(m))
        return SymStr(out, s.enc)

    def upper(s):
        return s._case(True)

    def lower(s):
        return s._case(False)

    def concrete(s, model):
        raw = bytes(
            model.eval(bv8(b), model_completion=True).as_long() if z3.is_expr(b) else b
            for b in s.items)
        return raw.decode(s.enc, "strict" if not s.lossy else s.lossy)


class SymText:
    """text rendering of a symbolic value: str(int) ('dec') or bytes.hex() ('hex').
    Only equality with concrete strings is supported (what MatchingParameter.matches needs)."""
    __class__ = property(lambda s: str)

    def __init__(s, kind, payload, upper=False, lower=False, pad=0):
        # pad: number of leading zeros in front of a (non-negative) decimal numeral ("0057")
        s.kind, s.payload, s.up, s.lo, s.pad = kind, payload, upper, lower, pad

    def upper(s):
        if s.kind == "bytesrepr":
            raise Unsupported("case mapping of the text rendering of symbolic bytes")
        return SymText(s.kind, s.payload, upper=True, pad=s.pad)

    def lower(s):
        return SymText(s.kind, s.payload, lower=True, pad=s.pad)

    def _eq(s, o):
        import re
        if isinstance(o, SymText):
            if o.kind == s.kind == "dec":
                if o.pad != s.pad:
                    return False
                return s.payload == o.payload
            raise Unsupported("comparison of two symbolic texts")
        if not isinstance(o, str):
            return False
        if s.kind == "dec" and s.pad:
            if not re.fullmatch("0{%d}(0|[1-9][0-9]*)" % s.pad, o):
                return False
            return s.payload == int(o)
        if s.kind == "dec":
            # str(v) == "123"  <=>  v == 123 for canonical numerals
            if not re.fullmatch(r"-?(0|[1-9][0-9]*)", o) or o == "-0":
                return False
            return s.payload == int(o)
        if s.kind == "hexnum":
            # hex(v) == "0x1f"  <=>  v == 0x1f for canonical numerals (hex() of a non-negative int)
            pat = r"0X(0|[1-9A-F][0-9A-F]*)" if s.up else r"0x(0|[1-9a-f][0-9a-f]*)"
            if not re.fullmatch(pat, o):
                return False
            return s.payload == int(o, 16)
        if s.kind == "hex":
            items = s.payload
            pat = r"[0-9A-F]*" if s.up else r"[0-9a-f]*"
            if not re.fullmatch(pat, o) or len(o) != 2 * len(items):
                return False
            return core.mkbytes(items) == bytes.fromhex(o)
        raise Unsupported(s.kind)

    def __eq__(s, o):
        return s._eq(o)

    def __ne__(s, o):
        return core.s_not(s._eq(o))

    def __hash__(s):
        raise Unsupported("hash of a symbolic text")

    def __repr__(s):
        return "<symtext>"

    __str__ = __repr__

    def __format__(s, spec):
        return "<symtext>"

    def __len__(s):
        if s.kind == "hex":
            return 2 * len(s.payload)
        raise Unsupported("len of a symbolic numeral")

    def __bool__(s):
        if s.kind in ("dec", "hexnum", "bytesrepr"):
            return True  # a numeral / the b'..' rendering is never the empty string
        return len(s.payload) > 0

    def __contains__(s, needle):
        if s.kind == "dec" and isinstance(needle, str) and needle and \
                any(c not in "-0123456789" for c in needle):
            return False  # a decimal numeral holds digits and a sign only
        raise Unsupported("substring test on a symbolic text")
