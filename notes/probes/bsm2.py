import re, struct, symx
_tok = re.compile(r'([purfs])(\d+)')
def _parse(fmt): return [(m.group(1), int(m.group(2))) for m in _tok.finditer(fmt)]
def pack(fmt, *args):
    toks = _parse(fmt); acc = 0; nbits = 0; ai = 0
    for letter, n in toks:
        if letter == 'p': acc <<= n; nbits += n; continue
        v = args[ai]; ai += 1
        if letter == 'u':
            if not isinstance(v, int): raise TypeError("an integer is required")
            if n > 64: raise NotImplementedError("Unsigned integer over 64 bits.")
            if v < 0 or v >= (1 << n): raise OverflowError("out of range")
            acc = (acc << n) | v; nbits += n
        elif letter == 'r':
            if n % 8 != 0: raise NotImplementedError("Raw not multiple of 8 bits.")
            if len(v) * 8 < n: raise NotImplementedError("Short raw data.")
            acc = (acc << n) | symx.from_bytes(v[:n // 8], 'big'); nbits += n
    nbytes = (nbits + 7) // 8
    acc <<= (nbytes * 8 - nbits)
    return acc.to_bytes(nbytes, 'big')
def unpack_from(fmt, data, offset=0):
    toks = _parse(fmt); total = sum(n for _, n in toks)
    if len(data) * 8 < offset + total: raise ValueError("Short data.")
    need = (offset + total + 7) // 8
    allv = symx.from_bytes(data[:need], 'big'); nb = need * 8
    pos = offset; out = []
    for letter, n in toks:
        v = (allv >> (nb - pos - n)) & ((1 << n) - 1); pos += n
        if letter == 'u':
            if n > 64: raise NotImplementedError
            out.append(v)
        elif letter == 'r':
            if n % 8 != 0: raise NotImplementedError
            out.append(v.to_bytes(n // 8, 'big'))
    return tuple(out)
