"""SPIKE: tiny symbolic-proxy engine over z3 bit-vectors (probe only)."""
import z3, time
W = 160

class Abort(BaseException): pass

class Ctx:
    cur = None
    def __init__(self):
        self.solver = z3.Solver()
        self.prefix = []      # decisions to replay
        self.pos = 0
        self.pc = []          # path condition (z3 bools)
        self.queries = 0
        self.qtime = 0.0
        self.divcache = {}
    def check(self, *extra):
        self.queries += 1
        t = time.time()
        r = self.solver.check(*self.pc, *extra)
        self.qtime += time.time() - t
        return r
    def branch(self, cond, tag=None):
        """cond: z3 Bool. Return python bool, record decision."""
        cond = z3.simplify(cond)
        if z3.is_true(cond): return True
        if z3.is_false(cond): return False
        if self.pos < len(self.prefix):
            d = self.prefix[self.pos][0]
        else:
            # new decision: try True first if feasible
            t_ok = self.check(cond) == z3.sat
            f_ok = self.check(z3.Not(cond)) == z3.sat
            if t_ok and f_ok:
                d = True; self.prefix.append([True, True] + ([tag] if tag is not None else []))
            elif t_ok:
                d = True; self.prefix.append([True, False] + ([tag] if tag is not None else []))
            elif f_ok:
                d = False; self.prefix.append([False, False] + ([tag] if tag is not None else []))
            else:
                raise Abort("infeasible")
        self.pos += 1
        self.pc.append(cond if d else z3.Not(cond))
        return d

def concretize(x):
    """value-fork: pick a feasible value, branch on equality (deterministic on replay)"""
    if not isinstance(x, SymInt): return x
    c = Ctx.cur
    while True:
        if c.pos < len(c.prefix) and len(c.prefix[c.pos]) == 3:
            val = c.prefix[c.pos][2]
        else:
            assert c.check() == z3.sat
            val = c.solver.model().eval(x.e, model_completion=True).as_signed_long()
            c.pending_val = val
        if c.branch(x.e == val, val): return val

def bv(x):
    if isinstance(x, SymInt): return x.e
    if isinstance(x, bool): x = int(x)
    return z3.BitVecVal(x, W)

class SymBool:
    def __init__(self, e): self.e = e
    def __bool__(self): return Ctx.cur.branch(self.e)
    def __and__(self, o): return SymBool(z3.And(self.e, o.e if isinstance(o, SymBool) else z3.BoolVal(bool(o))))
    def __invert__(self): return SymBool(z3.Not(self.e))

def _lift(e): 
    e = z3.simplify(e)
    if z3.is_bv_value(e): return e.as_signed_long()
    return SymInt(e)

class SymInt(int):
    def __new__(cls, e):
        o = int.__new__(cls, 0); o.e = e; return o
    def __add__(s, o): return _lift(s.e + bv(o))
    __radd__ = __add__
    def __sub__(s, o): return _lift(s.e - bv(o))
    def __rsub__(s, o): return _lift(bv(o) - s.e)
    def __neg__(s): return _lift(-s.e)
    def __abs__(s): return _lift(z3.If(s.e < 0, -s.e, s.e))
    def __and__(s, o): return _lift(s.e & bv(o))
    __rand__ = __and__
    def __or__(s, o): return _lift(s.e | bv(o))
    __ror__ = __or__
    def __xor__(s, o): return _lift(s.e ^ bv(o))
    def __invert__(s): return _lift(~s.e)
    def __lshift__(s, o): return _lift(s.e << bv(o))
    def __rlshift__(s, o): return _lift(bv(o) << s.e)
    def __rshift__(s, o): return _lift(s.e >> bv(o))   # arithmetic shift (python semantics)
    def __mul__(s, o): return _lift(s.e * bv(o))
    __rmul__ = __mul__
    def _divmod_const(s, o):
        # floor div/mod by a positive concrete constant via fresh q,r: a == o*q + r, 0<=r<o
        assert isinstance(o, int) and not isinstance(o, SymInt) and o > 0
        key = (s.e.get_id(), o)
        c = Ctx.cur
        if key in c.divcache: return c.divcache[key]
        n = len(c.divcache)
        q = z3.BitVec(f"q!{n}", W); r = z3.BitVec(f"r!{n}", W)
        lim = (1 << (W - 2)) // o
        c.pc.append(z3.And(s.e == o * q + r, r >= 0, r < o, q >= -lim, q <= lim))
        c.divcache[key] = (SymInt(q), SymInt(r))
        return c.divcache[key]
    def __floordiv__(s, o): return s._divmod_const(o)[0]
    def __mod__(s, o): return s._divmod_const(o)[1]
    def __lt__(s, o): return SymBool(s.e < bv(o))
    def __le__(s, o): return SymBool(s.e <= bv(o))
    def __gt__(s, o): return SymBool(s.e > bv(o))
    def __ge__(s, o): return SymBool(s.e >= bv(o))
    def __eq__(s, o):
        if not isinstance(o, int): return False
        return SymBool(s.e == bv(o))
    def __ne__(s, o):
        if not isinstance(o, int): return True
        return SymBool(s.e != bv(o))
    def __hash__(s): return hash(concretize(s))
    def __bool__(s): return Ctx.cur.branch(s.e != 0)
    def __index__(s): return concretize(s)
    def __repr__(s): return "<symint>"
    __str__ = __repr__
    def __format__(s, spec): return "<symint>"
    def bit_length(s):
        a = z3.If(s.e < 0, -s.e, s.e)
        r = z3.BitVecVal(0, W)
        for k in range(W - 1, 0, -1):   # spike: linear ITE chain
            pass
        # binary search style: count via comparisons
        e = z3.BitVecVal(0, W)
        for k in range(1, W):
            e = z3.If(z3.UGE(a, z3.BitVecVal(1 << (k - 1), W)), z3.BitVecVal(k, W), e)
        return _lift(e)
    def to_bytes(s, length, byteorder='big', *, signed=False):
        if not signed:
            if s < 0: raise OverflowError("can't convert negative int to unsigned")
            if s >= (1 << (8 * length)): raise OverflowError("int too big to convert")
        bs = [z3.Extract(8 * (length - 1 - i) + 7, 8 * (length - 1 - i), s.e) for i in range(length)]
        if byteorder == 'little': bs = bs[::-1]
        return SymBytes(bs)

def from_bytes(b, byteorder='big'):
    if not isinstance(b, (SymBytes, SymByteArray)): return int.from_bytes(b, byteorder)
    items = b.items if byteorder == 'big' else b.items[::-1]
    if not items: return 0
    e = z3.Concat(*[bv8(x) for x in items]) if len(items) > 1 else bv8(items[0])
    return _lift(z3.ZeroExt(W - 8 * len(items), e))

def bv8(x):
    if z3.is_expr(x): return x
    return z3.BitVecVal(x, 8)
def lift8(e):
    if not z3.is_expr(e): return e
    e = z3.simplify(e)
    if z3.is_bv_value(e): return e.as_long()
    return SymInt(z3.ZeroExt(W - 8, e))
def low8(x):
    if isinstance(x, SymInt): return z3.Extract(7, 0, x.e)   # caller must ensure 0<=x<256
    return x & 0xff

class _SB:
    def __len__(s): return len(s.items)
    def __getitem__(s, k):
        if isinstance(k, slice):
            k = slice(concretize(k.start), concretize(k.stop), k.step)
            return type(s)(s.items[k])
        k = concretize(k)
        return lift8(s.items[k])
    def __iter__(s): return (lift8(x) for x in s.items)
    def __eq__(s, o):
        oi = o.items if isinstance(o, _SB) else list(o)
        if len(oi) != len(s.items): return False
        if all(not z3.is_expr(a) for a in s.items) and all(not z3.is_expr(b) for b in oi):
            return list(s.items) == list(oi)
        e = z3.simplify(z3.And([bv8(a) == bv8(b) for a, b in zip(s.items, oi)]))
        if z3.is_true(e): return True
        if z3.is_false(e): return False
        return SymBool(e)
    def __ne__(s, o):
        r = s.__eq__(o)
        return (not r) if isinstance(r, bool) else ~r
    __hash__ = None
    def __add__(s, o): return type(s)(s.items + (o.items if isinstance(o, _SB) else list(o)))
    def __radd__(s, o): return type(s)(list(o) + s.items)
    def hex(s): return "<symhex>"
    def __repr__(s): return "<symbytes>"
    def __bytes__(s): return SymBytes(s.items)
class SymBytes(_SB, bytes):
    def __new__(cls, items):
        o = bytes.__new__(cls); o.items = list(items); return o
class SymByteArray(_SB, bytearray):
    def __init__(s, items=()):
        bytearray.__init__(s); s.items = list(items.items if isinstance(items, _SB) else items)
    def __iadd__(s, o): s.items += (o.items if isinstance(o, _SB) else list(o)); return s
    def __setitem__(s, k, v):
        if isinstance(k, slice):
            s.items[k] = v.items if isinstance(v, _SB) else list(v)
        else:
            s.items[k] = low8(v)

def explore(fn, mk_inputs, max_paths=100000):
    """fn(ctx, *inputs)->(post z3 bool or None)"""
    prefix = []
    results = []
    t0 = time.time(); tq = 0; nq = 0
    while True:
        ctx = Ctx(); ctx.prefix = prefix; Ctx.cur = ctx
        try:
            out = fn(ctx)
            results.append(("ok", out, list(ctx.pc)))
        except Abort as a:
            results.append(("abort", str(a), list(ctx.pc)))
        except Exception as e:
            results.append(("exc", e, list(ctx.pc)))
        tq += ctx.qtime; nq += ctx.queries
        prefix = ctx.prefix[:ctx.pos] if ctx.pos < len(ctx.prefix) else ctx.prefix
        # backtrack
        while prefix and not prefix[-1][1]:
            prefix.pop()
        if not prefix: break
        prefix[-1] = [not prefix[-1][0], False] + prefix[-1][2:]
        if len(results) >= max_paths: break
    return results, nq, tq, time.time() - t0
