import z3, random, itertools
def utf8_valid(bs):
    n = len(bs); memo = {}
    def rng(b, lo, hi): return z3.And(z3.UGE(b, lo), z3.ULE(b, hi))
    def cont(i): return rng(bs[i], 0x80, 0xBF) if i < n else z3.BoolVal(False)
    def v(i):
        if i >= n: return z3.BoolVal(i == n)
        if i in memo: return memo[i]
        b = bs[i]
        alts = [z3.And(z3.ULE(b, 0x7F), v(i + 1))]
        if i + 1 < n:
            alts.append(z3.And(rng(b, 0xC2, 0xDF), cont(i + 1), v(i + 2)))
        if i + 2 < n:
            alts.append(z3.And(b == 0xE0, rng(bs[i + 1], 0xA0, 0xBF), cont(i + 2), v(i + 3)))
            alts.append(z3.And(z3.Or(rng(b, 0xE1, 0xEC), rng(b, 0xEE, 0xEF)), cont(i + 1), cont(i + 2), v(i + 3)))
            alts.append(z3.And(b == 0xED, rng(bs[i + 1], 0x80, 0x9F), cont(i + 2), v(i + 3)))
        if i + 3 < n:
            alts.append(z3.And(b == 0xF0, rng(bs[i + 1], 0x90, 0xBF), cont(i + 2), cont(i + 3), v(i + 4)))
            alts.append(z3.And(rng(b, 0xF1, 0xF3), cont(i + 1), cont(i + 2), cont(i + 3), v(i + 4)))
            alts.append(z3.And(b == 0xF4, rng(bs[i + 1], 0x80, 0x8F), cont(i + 2), cont(i + 3), v(i + 4)))
        memo[i] = z3.Or(alts); return memo[i]
    return v(0)
def py_valid(b):
    try: b.decode('utf-8'); return True
    except UnicodeDecodeError: return False
bad = 0; tot = 0
for n in (1, 2, 3, 4):
    vs = [z3.BitVec(f"b{i}", 8) for i in range(n)]
    f = utf8_valid(vs)
    if n <= 2: cases = itertools.product(range(256), repeat=n)
    else:
        random.seed(1)
        interesting = [0, 0x7f, 0x80, 0x8f, 0x90, 0x9f, 0xa0, 0xbf, 0xc0, 0xc1, 0xc2, 0xdf, 0xe0, 0xe1, 0xec, 0xed, 0xee, 0xef, 0xf0, 0xf1, 0xf3, 0xf4, 0xf5, 0xff, 0x41]
        cases = itertools.product(interesting, repeat=n) if n == 3 else (tuple(random.choice(interesting) for _ in range(4)) for _ in range(40000))
    for c in cases:
        tot += 1
        r = z3.is_true(z3.simplify(z3.substitute(f, *[(v, z3.BitVecVal(x, 8)) for v, x in zip(vs, c)])))
        if r != py_valid(bytes(c)):
            bad += 1
            if bad < 5: print("MISMATCH", bytes(c).hex(), r)
print("cases", tot, "mismatches", bad)
