import z3, time, sys, subprocess
from fractions import Fraction
from math import gcd
F64 = z3.Float64(); RNE = z3.RNE(); RTZ = z3.RTZ()
def fpv(x): return z3.FPVal(x, F64)
def build(offset, factor, den, bits, roundtrip=False, Wd=160):
    x = z3.BitVec('x', bits)
    xf = z3.fpSignedToFP(RNE, x, F64)
    res = z3.fpDiv(RNE, z3.fpAdd(RNE, fpv(offset), z3.fpMul(RNE, fpv(factor), xf)), fpv(den))
    r = z3.fpRoundToIntegral(RNE, res)
    yb = bits + 8
    y = z3.fpToSBV(RTZ, r, z3.BitVecSort(yb))
    if roundtrip:
        yf = z3.fpSignedToFP(RNE, y, F64)
        back = z3.fpDiv(RNE, z3.fpSub(RNE, z3.fpMul(RNE, yf, fpv(den)), fpv(offset)), fpv(factor))
        x2 = z3.fpToSBV(RTZ, z3.fpRoundToIntegral(RNE, back), z3.BitVecSort(yb))
        return z3.Not(x2 == z3.SignExt(yb - bits, x))
    o, f, d = Fraction(offset), Fraction(factor), Fraction(den)
    L = 1
    for q in (o, f, d): L = L * q.denominator // gcd(L, q.denominator)
    O, Fc, D = int(o * L), int(f * L), int(d * L)
    xs = z3.SignExt(Wd - bits, x); ys = z3.SignExt(Wd - yb, y)
    diff = ys * z3.BitVecVal(D, Wd) - (z3.BitVecVal(O, Wd) + z3.BitVecVal(Fc, Wd) * xs)
    ad = z3.If(diff < 0, -diff, diff)
    ok = 2 * ad * (1 << 20) <= z3.BitVecVal(abs(D) * ((1 << 20) + 1), Wd)
    return z3.Not(ok)

def run(name, *a, **kw):
    f = build(*a, **kw)
    s = z3.Solver(); s.set("timeout", 120000); s.add(f)
    t = time.time(); r = s.check(); dt = time.time() - t
    line = f"{name} {a} {kw}: z3py={r} {dt:.1f}s"
    smt = "(set-logic QF_BVFP)\n" + s.to_smt2().replace("(set-info :status unknown)", "")
    open("/tmp/probe/q.smt2", "w").write(smt)
    for tool, cmd in (("cvc5", ["cvc5", "--tlimit=120000", "/tmp/probe/q.smt2"]), ("z3-4.8", ["/usr/bin/z3", "-T:120", "/tmp/probe/q.smt2"])):
        t = time.time()
        try:
            out = subprocess.run(cmd, capture_output=True, text=True, timeout=130).stdout.strip().split("\n")[0]
        except subprocess.TimeoutExpired:
            out = "TIMEOUT"
        line += f" | {tool}={out} {time.time()-t:.1f}s"
    print(line, flush=True)

run("fwd", 7.0, 3.0, 2.0, 8)
run("fwd", 7.0, 3.0, 2.0, 10)
run("fwd", 7.0, 3.0, 2.0, 12)
run("fwd", 1.5, 0.1, 1.0, 10)
run("fwd", 1.5, 0.1, 1.0, 16)
run("rt", 7.0, 3.0, 2.0, 8, roundtrip=True)
run("rt", 7.0, 3.0, 2.0, 12, roundtrip=True)
run("rt", 0.0, -2.0, 1.0, 16, roundtrip=True)
run("fwd", 7.0, 3.0, 2.0, 16)
