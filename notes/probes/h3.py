import sys; sys.path.insert(0,'/tmp/probe')
import bsmodel
import odxtools.encodestate as es, odxtools.decodestate as ds
es.bitstruct = bsmodel; ds.bitstruct = bsmodel
from odxtools.odxtypes import DataType
from odxtools.encoding import Encoding
from odxtools.exceptions import OdxError

def _rt(v, bitpos, hl, bl, dt=DataType.A_UINT32, enc=None):
    st = es.EncodeState()
    st.cursor_bit_position = bitpos
    st.emplace_atomic_value(internal_value=v, bit_length=bl, base_data_type=dt,
        base_type_encoding=enc, is_highlow_byte_order=hl, used_mask=None)
    d = ds.DecodeState(coded_message=bytes(st.coded_message))
    d.cursor_bit_position = bitpos
    return d.extract_atomic_value(bit_length=bl, base_data_type=dt,
        base_type_encoding=enc, is_highlow_byte_order=hl)

def rt_u12_3_hl(v: int) -> int:
    """
    pre: -70000 <= v <= 70000
    post: _ == v
    raises: OdxError
    """
    return _rt(v, 3, True, 12)

def rt_u12_3_lh(v: int) -> int:
    """
    pre: 0 <= v < 4096
    post: _ == v
    """
    return _rt(v, 3, False, 12)

def rt_u32_0_lh(v: int) -> int:
    """
    pre: 0 <= v < 2**32
    post: _ == v
    """
    return _rt(v, 0, False, 32)
def rt_i16_5_lh(v: int) -> int:
    """
    pre: -2**15 <= v < 2**15
    post: _ == v
    """
    return _rt(v, 5, False, 16, DataType.A_INT32)
