import sys, z3, time
sys.path.insert(0, '/tmp/probe')
import symx, bsm2
symx.W = 80
import odxtools.encodestate as es, odxtools.decodestate as ds
es.bitstruct = bsm2; ds.bitstruct = bsm2
import odxtools.request as rq
from odxtools.odxtypes import DataType
from odxtools.encoding import Encoding
from odxtools.exceptions import OdxError, EncodeError, DecodeError
from odxtools.compumethods.compumethod import CompuCategory
from odxtools.compumethods.identicalcompumethod import IdenticalCompuMethod
from odxtools.dataobjectproperty import DataObjectProperty
from odxtools.nameditemlist import NamedItemList
from odxtools.odxlink import DocType, OdxDocFragment, OdxLinkDatabase, OdxLinkId, OdxLinkRef
from odxtools.parameters.codedconstparameter import CodedConstParameter
from odxtools.parameters.valueparameter import ValueParameter
from odxtools.physicaltype import PhysicalType
from odxtools.request import Request
from odxtools.standardlengthtype import StandardLengthType
from odxtools.snrefcontext import SnRefContext

doc_frags = [OdxDocFragment("UnitTest", DocType.CONTAINER)]

class SymEncodeState(es.EncodeState):
    def __post_init__(self):
        self.coded_message = symx.SymByteArray(self.coded_message)
        self.used_mask = symx.SymByteArray(self.used_mask)
        super().__post_init__()
rq.EncodeState = SymEncodeState

def mk(bl, bitpos, hl, dt):
    dct = StandardLengthType(base_data_type=dt, base_type_encoding=None, bit_length=bl, bit_mask=None,
                             is_highlow_byte_order_raw=hl, is_condensed_raw=None)
    cm = IdenticalCompuMethod(category=CompuCategory.IDENTICAL, compu_internal_to_phys=None, compu_phys_to_internal=None,
                              internal_type=dt, physical_type=dt)
    dop = DataObjectProperty(odx_id=OdxLinkId("dop", doc_frags), oid=None, short_name="dop", long_name=None, description=None,
                             admin_data=None, diag_coded_type=dct, physical_type=PhysicalType(dt, display_radix=None, precision=None),
                             compu_method=cm, unit_ref=None, sdgs=[], internal_constr=None, physical_constr=None)
    sid = CodedConstParameter(oid=None, short_name="sid", long_name=None, description=None, semantic=None,
        diag_coded_type=StandardLengthType(base_data_type=DataType.A_UINT32, base_type_encoding=None, bit_length=8, bit_mask=None,
                             is_highlow_byte_order_raw=None, is_condensed_raw=None),
        coded_value=0x22, byte_position=0, bit_position=None, sdgs=[])
    p = ValueParameter(oid=None, short_name="val", long_name=None, description=None, semantic=None, byte_position=1, bit_position=bitpos,
                       dop_ref=OdxLinkRef.from_id(dop.odx_id), dop_snref=None, physical_default_value_raw=None, sdgs=[])
    req = Request(odx_id=OdxLinkId("request_id", doc_frags), oid=None, short_name="request_sn", long_name=None, description=None,
                  admin_data=None, sdgs=[], parameters=NamedItemList([sid, p]))
    db = OdxLinkDatabase(); db.update(dop._build_odxlinks()); db.update(req._build_odxlinks())
    req._resolve_odxlinks(db); req._resolve_snrefs(SnRefContext())
    return req

def post(results, label):
    summary = {}; bad = []
    for kind, out, pc in results:
        if kind == "ok":
            s = z3.Solver(); s.set("timeout", 60000); r = s.check(*pc, z3.Not(out)); k = "ok-" + str(r)
            if r == z3.sat: bad.append(("post", s.model()))
        elif kind == "exc":
            k = "exc-" + type(out).__name__
            if not isinstance(out, OdxError):
                s = z3.Solver(); s.check(*pc); bad.append((k + ":" + str(out)[:80], s.model()))
        else: k = "abort-" + out
        summary[k] = summary.get(k, 0) + 1
    return summary, bad

for bl, bitpos, hl, dt in [(12, 3, True, DataType.A_UINT32), (16, 0, False, DataType.A_INT32), (5, 2, True, DataType.A_INT32)]:
    req = mk(bl, bitpos, hl, dt)
    # C01: encode(v) -> decode == v
    def enc_dec(ctx):
        v = symx.SymInt(z3.BitVec('v', symx.W))
        ctx.pc.append(z3.And(v.e >= -(1 << (bl + 8)), v.e <= (1 << (bl + 8))))
        pdu = req.encode(val=v)
        out = req.decode(symx.SymBytes(pdu.items))
        return z3.And(symx.bv(out["val"]) == v.e, symx.bv(out["sid"]) == 0x22)
    res, nq, tq, wall = symx.explore(enc_dec, None)
    print("C01", bl, bitpos, hl, dt.value, post(res, "c01"), f"paths={len(res)} q={nq} tq={tq:.2f} wall={wall:.2f}", flush=True)
    # C05: decode arbitrary bytes of len n
    for n in (0, 1, 2, 3, 4):
        def dec(ctx):
            msg = symx.SymBytes([z3.BitVec(f"b{i}", 8) for i in range(n)])
            try:
                req.decode(msg)
            except DecodeError:
                pass
            return z3.BoolVal(True)
        res, nq, tq, wall = symx.explore(dec, None)
        print("  C05 len", n, post(res, "c05"), f"paths={len(res)} q={nq} wall={wall:.2f}", flush=True)
