import z3, time, sys
from fractions import Fraction
F64 = z3.Float64(); RNE = z3.RNE()
def fpv(x): return z3.FPVal(x, F64)
def run(name, offset, factor, den, bits, signed=False, timeout=120000):
    Wd = 128
    x = z3.BitVec('x', bits)
    xf = z3.fpSignedToFP(RNE, x, F64) if signed else z3.fpUnsignedToFP(RNE, x, F64)
    # python: (offset + factor * x) / den ; round()
    res = z3.fpDiv(RNE, z3.fpAdd(RNE, fpv(offset), z3.fpMul(RNE, fpv(factor), xf)), fpv(den))
    r = z3.fpRoundToIntegral(RNE, res)
    y = z3.fpToSBV(RNE, r, z3.BitVecSort(Wd))
    # oracle in wide integers: |y*D - (O + F*x)*k| * 2 <= |D|*k (+ tolerance)
    o, f, d = Fraction(offset), Fraction(factor), Fraction(den)
    L = 1
    for q in (o, f, d): L = L * q.denominator // __import__('math').gcd(L, q.denominator)
    O, Fc, D = int(o * L), int(f * L), int(d * L)
    xs = z3.SignExt(Wd - bits, x) if signed else z3.ZeroExt(Wd - bits, x)
    num = z3.BitVecVal(O, Wd) + z3.BitVecVal(Fc, Wd) * xs        # = e * D
    diff = y * z3.BitVecVal(D, Wd) - num
    ad = z3.If(diff < 0, -diff, diff)
    Dabs = abs(D)
    ok = 2 * ad <= z3.BitVecVal(Dabs, Wd)
    s = z3.Solver(); s.set("timeout", timeout)
    s.add(z3.Not(ok))
    t = time.time(); r_ = s.check(); dt = time.time() - t
    print(name, offset, factor, den, bits, "->", r_, f"{dt:.1f}s", s.model() if r_ == z3.sat else "", flush=True)

run("lin", 7.0, 3.0, 2.0, 16)
run("lin", 1.5, 0.1, 1.0, 16)
run("lin", -40.0, 0.5, 1.0, 16)
run("lin", 7.0, 3.0, 2.0, 32)
run("lin", 0.0, 1.0, 3.0, 32, signed=True)
run("lin", 1.5, 0.1, 1.0, 32)
