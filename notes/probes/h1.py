import sys; sys.path.insert(0,'/tmp/probe')
import bsmodel
import odxtools.encodestate as es, odxtools.decodestate as ds
es.bitstruct = bsmodel; ds.bitstruct = bsmodel
from odxtools.odxtypes import DataType
from odxtools.encoding import Encoding
from odxtools.exceptions import OdxError

def rt_uint(v: int, bitpos: int, hl: bool) -> int:
    """
    pre: 0 <= bitpos <= 7
    post: _ == v
    raises: OdxError
    """
    st = es.EncodeState()
    st.cursor_bit_position = bitpos
    st.emplace_atomic_value(internal_value=v, bit_length=12, base_data_type=DataType.A_UINT32,
        base_type_encoding=None, is_highlow_byte_order=hl, used_mask=None)
    d = ds.DecodeState(coded_message=bytes(st.coded_message))
    d.cursor_bit_position = bitpos
    return d.extract_atomic_value(bit_length=12, base_data_type=DataType.A_UINT32,
        base_type_encoding=None, is_highlow_byte_order=hl)

def rt_int(v: int, bitpos: int) -> int:
    """
    pre: 0 <= bitpos <= 7
    post: _ == v
    raises: OdxError
    """
    st = es.EncodeState()
    st.cursor_bit_position = bitpos
    st.emplace_atomic_value(internal_value=v, bit_length=8, base_data_type=DataType.A_INT32,
        base_type_encoding=None, is_highlow_byte_order=True, used_mask=None)
    d = ds.DecodeState(coded_message=bytes(st.coded_message))
    d.cursor_bit_position = bitpos
    return d.extract_atomic_value(bit_length=8, base_data_type=DataType.A_INT32,
        base_type_encoding=None, is_highlow_byte_order=True)
