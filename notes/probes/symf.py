"""SPIKE: SymFloat on z3 FP + CFloat coefficient wrapper, bolted onto the symx spike."""
import z3, symx
F64 = z3.Float64(); RNE = z3.RNE(); RTZ = z3.RTZ()

def fp(x):
    if isinstance(x, SymFloat): return x.e
    if isinstance(x, symx.SymInt):
        e = x.e
        if z3.is_app_of(e, z3.Z3_OP_SIGN_EXT): return z3.fpSignedToFP(RNE, e.arg(0), F64)
        if z3.is_app_of(e, z3.Z3_OP_ZERO_EXT): return z3.fpUnsignedToFP(RNE, e.arg(0), F64)
        return z3.fpSignedToFP(RNE, e, F64)
    return z3.FPVal(float(x), F64)

def liftf(e):
    e = z3.simplify(e)
    return SymFloat(e)

class SymFloat(float):
    def __new__(cls, e):
        o = float.__new__(cls, 0.0); o.e = e; return o
    def __add__(s, o): return liftf(z3.fpAdd(RNE, s.e, fp(o)))
    __radd__ = __add__
    def __sub__(s, o): return liftf(z3.fpSub(RNE, s.e, fp(o)))
    def __rsub__(s, o): return liftf(z3.fpSub(RNE, fp(o), s.e))
    def __mul__(s, o): return liftf(z3.fpMul(RNE, s.e, fp(o)))
    __rmul__ = __mul__
    def __truediv__(s, o): return liftf(z3.fpDiv(RNE, s.e, fp(o)))
    def __rtruediv__(s, o): return liftf(z3.fpDiv(RNE, fp(o), s.e))
    def __neg__(s): return liftf(z3.fpNeg(s.e))
    def __abs__(s): return liftf(z3.fpAbs(s.e))
    def __lt__(s, o): return symx.SymBool(z3.fpLT(s.e, fp(o)))
    def __le__(s, o): return symx.SymBool(z3.fpLEQ(s.e, fp(o)))
    def __gt__(s, o): return symx.SymBool(z3.fpGT(s.e, fp(o)))
    def __ge__(s, o): return symx.SymBool(z3.fpGEQ(s.e, fp(o)))
    def __eq__(s, o): return symx.SymBool(z3.fpEQ(s.e, fp(o)))
    def __ne__(s, o): return symx.SymBool(z3.Not(z3.fpEQ(s.e, fp(o))))
    __hash__ = None
    def __round__(s, nd=None):
        assert nd is None
        r = z3.fpRoundToIntegral(RNE, s.e)
        return symx.SymInt(z3.fpToSBV(RTZ, r, z3.BitVecSort(symx.W)))
    def __int__(s): return symx.SymInt(z3.fpToSBV(RTZ, s.e, z3.BitVecSort(symx.W)))
    __trunc__ = __int__
    def __float__(s): return s
    def __repr__(s): return "<symfloat>"
    def __format__(s, spec): return "<symfloat>"

class CFloat(float):
    """concrete float that dispatches to symbolic arithmetic when the other operand is symbolic"""
    def _sym(s, o): return isinstance(o, (SymFloat, symx.SymInt))
    def __mul__(s, o): return liftf(z3.fpMul(RNE, fp(float(s)), fp(o))) if s._sym(o) else float.__mul__(s, o)
    __rmul__ = __mul__
    def __add__(s, o): return liftf(z3.fpAdd(RNE, fp(float(s)), fp(o))) if s._sym(o) else float.__add__(s, o)
    __radd__ = __add__
    def __sub__(s, o): return liftf(z3.fpSub(RNE, fp(float(s)), fp(o))) if s._sym(o) else float.__sub__(s, o)
    def __rsub__(s, o): return liftf(z3.fpSub(RNE, fp(o), fp(float(s)))) if s._sym(o) else float.__rsub__(s, o)
    def __rtruediv__(s, o): return liftf(z3.fpDiv(RNE, fp(o), fp(float(s)))) if s._sym(o) else float.__rtruediv__(s, o)

# SymInt needs float-aware mul/div/sub: patch
_old_mul = symx.SymInt.__mul__
def _mul(s, o):
    if isinstance(o, float): return liftf(z3.fpMul(RNE, fp(s), fp(o)))
    return _old_mul(s, o)
symx.SymInt.__mul__ = _mul; symx.SymInt.__rmul__ = _mul
def _truediv(s, o): return liftf(z3.fpDiv(RNE, fp(s), fp(o)))
symx.SymInt.__truediv__ = _truediv
_old_sub = symx.SymInt.__sub__
def _sub(s, o):
    if isinstance(o, float): return liftf(z3.fpSub(RNE, fp(s), fp(o)))
    return _old_sub(s, o)
symx.SymInt.__sub__ = _sub
_old_add = symx.SymInt.__add__
def _add(s, o):
    if isinstance(o, float): return liftf(z3.fpAdd(RNE, fp(s), fp(o)))
    return _old_add(s, o)
symx.SymInt.__add__ = _add; symx.SymInt.__radd__ = _add
symx.SymInt.__float__ = lambda s: liftf(fp(s))
