import sys, z3, time
sys.path.insert(0, '/tmp/probe')
import symx, bsm2
symx.W = 80
import odxtools.isotp_state_machine as iso
iso.bitstruct = bsm2
bsm2.unpack = lambda fmt, data: bsm2.unpack_from(fmt, data, 0)
iso.bytearray = symx.SymByteArray

def run(lens):
    def fn(ctx):
        sm = iso.IsoTpStateMachine([0x7e8])
        out = []
        for i, n in enumerate(lens):
            fr = symx.SymBytes([z3.BitVec(f"f{i}_{j}", 8) for j in range(n)])
            out.append(list(sm.decode_rx_frame(0x7e8, fr)))
        return z3.BoolVal(True)
    res, nq, tq, wall = symx.explore(fn, None, max_paths=5000)
    summ = {}
    wit = {}
    for kind, out, pc in res:
        k = kind if kind != "exc" else "exc-" + type(out).__name__ + ":" + str(out)[:40]
        summ[k] = summ.get(k, 0) + 1
        if kind == "exc" and k not in wit:
            s = z3.Solver(); s.check(*pc); m = s.model()
            wit[k] = sorted([(str(d), m[d]) for d in m.decls()])[:6]
    print(lens, summ, f"paths={len(res)} q={nq} tq={tq:.2f} wall={wall:.2f}", flush=True)
    for k, w in wit.items(): print("    ", k, w)
run([0]); run([1]); run([8]); run([8, 8]); run([8, 8, 8])
