import sys, z3, time, warnings
sys.path.insert(0, '/tmp/probe')
import symx, bsm2
symx.W = 80
import odxtools
import odxtools.encodestate as es, odxtools.decodestate as ds, odxtools.codec as codec, odxtools.request as rq, odxtools.response as rs
es.bitstruct = bsm2; ds.bitstruct = bsm2
from odxtools.exceptions import OdxError, DecodeError
class SymEncodeState(es.EncodeState):
    def __post_init__(self):
        self.coded_message = symx.SymByteArray(self.coded_message)
        self.used_mask = symx.SymByteArray(self.used_mask)
        super().__post_init__()
for m in (codec, rq, rs): m.EncodeState = SymEncodeState
warnings.simplefilter("ignore")
db = odxtools.load_pdx_file('/repo/examples/somersault.pdx')
ecu = db.ecus.somersault_lazy
print("prefix tree keys:", sorted(ecu._prefix_tree.keys()))
for n in (1, 2, 3):
    def fn(ctx):
        msg = symx.SymBytes([z3.BitVec(f"b{i}", 8) for i in range(n)])
        try:
            r = ecu.decode(msg)
        except DecodeError:
            pass
        return z3.BoolVal(True)
    t = time.time()
    res, nq, tq, wall = symx.explore(fn, None, max_paths=20000)
    out = {}; wit = {}
    for kind, post, pc in res:
        k = kind if kind != "exc" else "exc-" + type(post).__name__ + ":" + str(post)[:70]
        if kind == "abort": k += str(post)
        out[k] = out.get(k, 0) + 1
        if kind == "exc" and k not in wit:
            s = z3.Solver(); s.check(*pc); m = s.model(); wit[k] = bytes(m.eval(z3.BitVec(f"b{i}", 8), model_completion=True).as_long() for i in range(n)).hex()
    print(n, out, f"paths={len(res)} q={nq} tq={tq:.1f} wall={wall:.1f}", flush=True)
    for k, w in wit.items(): print("     ", k, "witness", w)
