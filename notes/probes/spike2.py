import sys, z3, time
sys.path.insert(0, '/tmp/probe')
import symx, bsm2
import odxtools.encodestate as es, odxtools.decodestate as ds
es.bitstruct = bsm2; ds.bitstruct = bsm2
from odxtools.odxtypes import DataType
from odxtools.encoding import Encoding
from odxtools.exceptions import OdxError, EncodeError

symx.W = int(sys.argv[1]) if len(sys.argv) > 1 else 160

def harness(bl, bitpos, hl, dt, enc):
    def fn(ctx):
        v = symx.SymInt(z3.BitVec('v', symx.W))
        ctx.pc.append(z3.And(v.e >= -(1 << (bl + 8)), v.e <= (1 << (bl + 8))))
        st = es.EncodeState(coded_message=symx.SymByteArray(), used_mask=symx.SymByteArray())
        st.cursor_bit_position = bitpos
        st.emplace_atomic_value(internal_value=v, bit_length=bl, base_data_type=dt,
            base_type_encoding=enc, is_highlow_byte_order=hl, used_mask=None)
        d = ds.DecodeState(coded_message=symx.SymBytes(st.coded_message.items))
        d.cursor_bit_position = bitpos
        r = d.extract_atomic_value(bit_length=bl, base_data_type=dt, base_type_encoding=enc, is_highlow_byte_order=hl)
        return symx.bv(r) == symx.bv(v)
    return fn

cfgs = [] if len(sys.argv) > 2 else [(DataType.A_UINT32, None, 12, 3, True), (DataType.A_INT32, None, 8, 0, True),
        (DataType.A_INT32, Encoding.SM, 16, 5, False), (DataType.A_UINT32, None, 64, 3, False),
        (DataType.A_UINT32, Encoding.BCD_P, 8, 0, True), (DataType.A_UINT32, Encoding.BCD_P, 16, 4, True), (DataType.A_UINT32, Encoding.BCD_UP, 32, 0, False)]
cfgs += [(DataType.A_UINT32, Encoding.BCD_P, 8, 0, True), (DataType.A_UINT32, Encoding.BCD_P, 16, 4, True), (DataType.A_UINT32, Encoding.BCD_UP, 32, 0, False),(DataType.A_UINT32, Encoding.BCD_P, 32, 0, False)] if len(sys.argv) > 2 else []
for dt, enc, bl, bitpos, hl in cfgs:
    t0 = time.time()
    res, nq, tq, wall = symx.explore(harness(bl, bitpos, hl, dt, enc), None, max_paths=200)
    summary = {}
    bad = []
    tpost = time.time()
    for kind, out, pc in res:
        if kind == "ok":
            s = z3.Solver(); s.set("timeout", 60000); r = s.check(*pc, z3.Not(out))
            k = "ok-" + str(r)
            if r == z3.sat: bad.append(("roundtrip", s.model()))
        elif kind == "exc":
            k = "exc-" + type(out).__name__
            if not isinstance(out, OdxError):
                s = z3.Solver(); s.check(*pc); bad.append((k, s.model()))
        else: k = "abort-" + out
        summary[k] = summary.get(k, 0) + 1
    print(dt.value, enc, bl, bitpos, hl, summary, f"paths={len(res)} q={nq} tq={tq:.2f}s explore={wall:.2f}s post={time.time()-tpost:.2f}s", [(k, m) for k, m in bad][:2], flush=True)
