import sys, z3, time
sys.path.insert(0, '/tmp/probe')
import symx, symf
symx.W = 64
from fractions import Fraction
from math import gcd
from odxtools.odxtypes import DataType
from odxtools.exceptions import OdxError
from odxtools.compumethods.compumethod import CompuCategory
from odxtools.compumethods.compuinternaltophys import CompuInternalToPhys
from odxtools.compumethods.compurationalcoeffs import CompuRationalCoeffs
from odxtools.compumethods.compuscale import CompuScale
from odxtools.compumethods.limit import Limit, IntervalType
from odxtools.compumethods.linearcompumethod import LinearCompuMethod

def mk(offset, factor, den, lo, hi, it=DataType.A_INT32, pt=DataType.A_INT32):
    C = symf.CFloat
    sc = CompuScale(short_label=None, description=None,
        lower_limit=Limit(value_raw=str(lo), value_type=it, interval_type=IntervalType.CLOSED),
        upper_limit=Limit(value_raw=str(hi), value_type=it, interval_type=IntervalType.CLOSED),
        compu_inverse_value=None, compu_const=None,
        compu_rational_coeffs=CompuRationalCoeffs(value_type=pt, numerators=[C(offset), C(factor)], denominators=[C(den)]),
        domain_type=it, range_type=pt)
    return LinearCompuMethod(category=CompuCategory.LINEAR,
        compu_internal_to_phys=CompuInternalToPhys(compu_scales=[sc], prog_code=None, compu_default_value=None),
        compu_phys_to_internal=None, internal_type=it, physical_type=pt)

def oracle(y, x, offset, factor, den):
    Wd = 64
    o, f, d = Fraction(offset), Fraction(factor), Fraction(den)
    L = 1
    for q in (o, f, d): L = L * q.denominator // gcd(L, q.denominator)
    O, Fc, D = int(o * L), int(f * L), int(d * L)
    xs = x; ys = y
    diff = ys * D - (O + Fc * xs)
    ad = z3.If(diff < 0, -diff, diff)
    return 2 * ad * (1 << 20) <= abs(D) * ((1 << 20) + 1)

for (offset, factor, den, bits) in [(7.0, 3.0, 2.0, 12), (1.5, 0.1, 1.0, 12), (-40.0, 0.5, 1.0, 16), (0.0, -2.0, 1.0, 16), (7.0, 3.0, 2.0, 16)]:
    lo, hi = -(1 << (bits - 1)), (1 << (bits - 1)) - 1
    cm = mk(offset, factor, den, lo, hi)
    def fwd(ctx):
        x = symx.SymInt(z3.SignExt(symx.W - (bits + 1), z3.BitVec('x', bits + 1)))
        ctx.pc.append(z3.And(x.e >= lo - 5, x.e <= hi + 5))
        if not cm.is_valid_internal_value(x):
            return z3.BoolVal(True)
        y = cm.convert_internal_to_physical(x)
        return oracle(symx.bv(y), x.e, offset, factor, den)
    t = time.time()
    res, nq, tq, wall = symx.explore(fwd, None)
    out = {}
    for kind, post, pc in res:
        if kind == "ok":
            s = z3.Solver(); s.set("timeout", 120000); r = s.check(*pc, z3.Not(post)); k = "ok-" + str(r)
            if r == z3.sat: k += " x=" + str(s.model().eval(z3.BitVec('x', bits + 1)).as_signed_long())
        else: k = kind + "-" + (type(post).__name__ if kind == "exc" else str(post)) + ":" + str(post)[:60]
        out[k] = out.get(k, 0) + 1
    print("fwd", offset, factor, den, bits, out, f"paths={len(res)} q={nq} tq={tq:.1f} total={time.time()-t:.1f}s", flush=True)
    if abs(factor / den) >= 1:
        def rt(ctx):
            x = symx.SymInt(z3.SignExt(symx.W - (bits + 1), z3.BitVec('x', bits + 1)))
            ctx.pc.append(z3.And(x.e >= lo - 5, x.e <= hi + 5))
            if not cm.is_valid_internal_value(x):
                return z3.BoolVal(True)
            y = cm.convert_internal_to_physical(x)
            if not cm.is_valid_physical_value(y):
                return z3.BoolVal(False)
            x2 = cm.convert_physical_to_internal(y)
            return symx.bv(x2) == x.e
        t = time.time()
        res, nq, tq, wall = symx.explore(rt, None)
        out = {}
        for kind, post, pc in res:
            if kind == "ok":
                s = z3.Solver(); s.set("timeout", 120000); r = s.check(*pc, z3.Not(post)); k = "ok-" + str(r)
                if r == z3.sat: k += " x=" + str(s.model().eval(z3.BitVec('x', bits + 1)).as_signed_long())
            else: k = kind + "-" + (type(post).__name__ if kind == "exc" else str(post)) + ":" + str(post)[:60]
            out[k] = out.get(k, 0) + 1
        print("  rt", out, f"paths={len(res)} q={nq} tq={tq:.1f} total={time.time()-t:.1f}s", flush=True)
