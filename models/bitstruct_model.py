"""Integer/bit-vector model of the subset of bitstruct (8.23.0) that odxtools uses:
pack / unpack / unpack_from with tokens p<k> u<n> r<n> f<n>, big endian.

Two variants reproduce the observable differences of the two back ends
(`bitstruct.c` = "c", pure `bitstruct` = "py").  The model is validated
differentially against both real back ends by harness/selftest.py and, on every
explored path, by the concolic replay that runs the real bitstruct.
"""
import re
import struct

import z3

from symx import core
from symx.core import SymInt, SymFloat, _SB, Unsupported, bv8

_tok = re.compile(r"([a-zA-Z])(\d+)")


class Error(Exception):
    """stands for bitstruct.Error (pure back end)"""


def _parse(fmt, variant):
    if not isinstance(fmt, str):
        raise TypeError("format must be str")
    toks = [(m.group(1), int(m.group(2))) for m in _tok.finditer(fmt)]
    if "".join(f"{a}{b}" for a, b in toks) != fmt.replace(" ", ""):
        if "<sym" in fmt:
            raise Unsupported("symbolic value formatted into a bitstruct format string")
        raise (Error if variant == "py" else ValueError)(f"bad format '{fmt}'")
    for letter, n in toks:
        if n == 0:
            raise (Error if variant == "py" else ValueError)(f"bad format '{fmt}'")
        if letter not in "purf":
            raise Unsupported(f"bitstruct token {letter}{n} not modelled")
    return toks


class Model:
    """one instance per back end variant; installed as module global `bitstruct`"""

    def __init__(self, variant="c"):
        assert variant in ("c", "py")
        self.variant = variant
        self.Error = Error

    # chunks: list of (nbits, int | z3 BitVec(nbits))
    @staticmethod
    def _to_bytes(chunks):
        total = sum(n for n, _ in chunks)
        pad = (-total) % 8
        if pad:
            chunks = chunks + [(pad, 0)]
            total += pad
        if total == 0:
            return b""
        if all(not z3.is_expr(v) for _, v in chunks):
            acc = 0
            for n, v in chunks:
                acc = (acc << n) | v
            return acc.to_bytes(total // 8, "big")
        terms = [v if z3.is_expr(v) else z3.BitVecVal(v, n) for n, v in chunks]
        e = z3.Concat(*terms) if len(terms) > 1 else terms[0]
        items = [z3.Extract(total - 8 * i - 1, total - 8 * i - 8, e) for i in range(total // 8)]
        return core.mkbytes(items)

    def _pack_u(self, n, v):
        c = self.variant == "c"
        if isinstance(v, (SymFloat, float)) and not isinstance(v, int):
            if c:
                raise TypeError("an integer is required")
            v = int(v) if not isinstance(v, SymFloat) else v.__int__()
        if isinstance(v, core.SymBool):
            v = core.mkint(core.bv(v), 0, 1)
        if not isinstance(v, int):
            raise TypeError("an integer is required") if c else Unsupported(
                f"pure bitstruct int({type(v).__name__})")
        if c and n > 64:
            raise NotImplementedError("Unsigned integer over 64 bits.")
        if (v < 0) or (v >= (1 << n)):
            if c:
                raise OverflowError(f"Unsigned integer value out of range.")
            raise Error(f'"u{n}" requires 0 <= integer <= {2**n-1}')
        if isinstance(v, SymInt):
            if n <= core.W:
                return (n, z3.Extract(n - 1, 0, v.e))
            return (n, z3.ZeroExt(n - core.W, v.e))
        return (n, int(v))

    def _pack_r(self, n, v):
        c = self.variant == "c"
        if not isinstance(v, (bytes, bytearray)):
            raise TypeError("a bytes-like object is required")
        if c and n % 8 != 0:
            raise NotImplementedError("Raw not multiple of 8 bits.")
        ln = len(v)
        if ln * 8 < n:
            if c:
                raise NotImplementedError("Short raw data.")
            padn = (n - 8 * ln) // 8
            v = v + b"\x00" * padn
            ln = len(v)
            if ln * 8 < n:
                # pure back end: bin(...)[3:size+3] simply yields fewer bits -> shorter output
                raise Unsupported("pure bitstruct raw shorter than size after padding")
        items = core._items_of(v)
        nb = (n + 7) // 8
        items = items[:nb]
        chunks = [(8, x) for x in items]
        if n % 8:
            last = items[-1]
            k = n % 8
            top = z3.Extract(7, 8 - k, last) if z3.is_expr(last) else (last >> (8 - k))
            chunks[-1] = (k, top)
        return chunks

    def _pack_f(self, n, v):
        c = self.variant == "c"
        if n not in (16, 32, 64):
            raise (NotImplementedError if c else Error)(f"float size {n}")
        if n == 16:
            raise Unsupported("f16")
        if isinstance(v, SymInt):
            v = core.tofloat(v)
        if isinstance(v, SymFloat):
            if n == 64:
                return (64, z3.fpToIEEEBV(v.e))
            f32 = z3.fpToFP(core.RNE, v.e, core.F32)
            if not c:
                # struct.pack('>f', x) raises OverflowError when a finite double rounds to inf
                if core.mkbool(z3.And(z3.fpIsInf(f32), z3.Not(z3.fpIsInf(v.e)))):
                    raise OverflowError("float too large to pack with f format")
            return (32, z3.fpToIEEEBV(f32))
        if not isinstance(v, (int, float)):
            raise TypeError("must be real number")
        x = float(v)
        if n == 64:
            return (64, int.from_bytes(struct.pack(">d", x), "big"))
        if c:
            try:
                raw = struct.pack(">f", x)
            except OverflowError:
                raw = struct.pack(">f", float("inf") if x > 0 else float("-inf"))
        else:
            raw = struct.pack(">f", x)
        return (32, int.from_bytes(raw, "big"))

    def pack(self, fmt, *args):
        toks = _parse(fmt, self.variant)
        nargs = sum(1 for l, _ in toks if l != "p")
        if len(args) < nargs:
            raise (TypeError if self.variant == "c" else Error)("too few arguments")
        chunks = []
        ai = 0
        for letter, n in toks:
            if letter == "p":
                chunks.append((n, 0))
                continue
            v = args[ai]
            ai += 1
            if letter == "u":
                chunks.append(self._pack_u(n, v))
            elif letter == "r":
                chunks.extend(self._pack_r(n, v))
            elif letter == "f":
                chunks.append(self._pack_f(n, v))
        return self._to_bytes(chunks)

    def unpack_from(self, fmt, data, offset=0):
        c = self.variant == "c"
        toks = _parse(fmt, self.variant)
        if not isinstance(data, (bytes, bytearray)):
            raise TypeError("a bytes-like object is required")
        total = sum(n for _, n in toks)
        if isinstance(offset, SymInt):
            offset = core.concretize(offset)
        if len(data) * 8 < offset + total:
            if c:
                raise ValueError("Short data.")
            raise Error(f"unpack requires at least {offset + total} bits to unpack "
                        f"(got {len(data) * 8})")
        items = core._items_of(data)
        sym = any(z3.is_expr(x) for x in items)
        nbits = 8 * len(items)
        if sym:
            allv = z3.Concat(*[bv8(x) for x in items]) if len(items) > 1 else bv8(items[0])
        else:
            allv = int.from_bytes(bytes(items), "big")

        def bits(pos, n):
            if sym:
                return z3.simplify(z3.Extract(nbits - pos - 1, nbits - pos - n, allv))
            return (allv >> (nbits - pos - n)) & ((1 << n) - 1)

        out = []
        pos = offset
        for letter, n in toks:
            if letter == "p":
                pos += n
                continue
            v = bits(pos, n)
            pos += n
            if letter == "u":
                if c and n > 64:
                    raise NotImplementedError("Unsigned integer over 64 bits.")
                if z3.is_expr(v):
                    if z3.is_bv_value(v):
                        out.append(v.as_long())
                    elif n <= core.W - 1:
                        out.append(core.mkint(z3.ZeroExt(core.W - n, v), 0, (1 << n) - 1))
                    else:
                        raise core.Inconclusive(f"width: u{n} does not fit W={core.W}")
                else:
                    out.append(v)
            elif letter == "r":
                if c and n % 8 != 0:
                    raise NotImplementedError("Raw not multiple of 8 bits.")
                nb = (n + 7) // 8
                if z3.is_expr(v):
                    if n % 8:
                        v = z3.Concat(v, z3.BitVecVal(0, 8 - n % 8))
                    its = [z3.Extract(8 * nb - 8 * i - 1, 8 * nb - 8 * i - 8, v) for i in range(nb)]
                    out.append(core.mkbytes(its))
                else:
                    if n % 8:
                        v <<= 8 - n % 8
                    out.append(v.to_bytes(nb, "big"))
            elif letter == "f":
                if n not in (32, 64):
                    raise Unsupported(f"f{n}")
                if z3.is_expr(v) and not z3.is_bv_value(v):
                    if n == 64:
                        out.append(core.mkfloat(z3.fpBVToFP(v, core.F64)))
                    else:
                        out.append(core.mkfloat(z3.fpToFP(core.RNE, z3.fpBVToFP(v, core.F32),
                                                          core.F64)))
                else:
                    iv = v.as_long() if z3.is_expr(v) else v
                    out.append(struct.unpack(">d" if n == 64 else ">f",
                                             iv.to_bytes(n // 8, "big"))[0])
        return tuple(out)

    def unpack(self, fmt, data):
        return self.unpack_from(fmt, data, 0)
