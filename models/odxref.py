"""Independent, deliberately naive statement of the ODX wire format (ISO 22901-1 §7.3.6) over the
same compact specs the catalogue builder consumes.  Shares no code with odxtools or with the
bitstruct model.  Values may be symbolic (symx proxies): only + - * // % << >> & | comparisons,
indexing and slicing are used.

Layout rules stated here:
 * a parameter starts at ORIGIN + BYTE-POSITION if BYTE-POSITION is given, else at the cursor
   (first byte after the previous parameter); ORIGIN is the first byte of the enclosing structure
 * a numeric field of BIT-LENGTH n at BIT-POSITION b occupies ceil((b+n)/8) bytes; read as one
   big-endian number F, the value is (F >> b) & (2^n - 1); for IS-HIGHLOW-BYTE-ORDER=false the
   bytes of the field are reversed on the wire
 * all undescribed bits are zero
"""
from symx import core
from symx.core import s_and, s_or, s_not


class Reject(Exception):
    """the reference says: this value is not representable -> the encoder must refuse it"""


NUMERIC = ("A_INT32", "A_UINT32", "A_FLOAT32", "A_FLOAT64")
STRINGS = ("A_ASCIISTRING", "A_UTF8STRING", "A_UNICODE2STRING")


def codec_of(dtype, enc, hl):
    if enc == "UTF-8" or (dtype == "A_UTF8STRING" and enc is None):
        return "utf-8"
    if enc == "UCS-2" or (dtype == "A_UNICODE2STRING" and enc is None):
        return "utf-16-be" if hl else "utf-16-le"
    if enc == "ISO-8859-1" or (dtype == "A_ASCIISTRING" and enc is None):
        return "iso-8859-1"
    if enc == "ISO-8859-2":
        return "iso-8859-2"
    if enc == "WINDOWS-1252":
        return "cp1252"
    return None


# ---------------------------------------------------------------------------
# representable domain and raw bit pattern of one numeric internal value
# ---------------------------------------------------------------------------
def bcd_digits(v, ndigits):
    """list of decimal digits of v (least significant first), or None if more than ndigits"""
    ds = []
    for _ in range(ndigits):
        ds.append(v % 10)
        v = v // 10
    return ds, v


def int_domain(dtype, enc, bl, v):
    """formula: v is representable"""
    if dtype == "A_UINT32":
        if enc in (None, "NONE"):
            return s_and(v >= 0, v < (1 << bl))
        if enc == "BCD-P":
            return s_and(v >= 0, v < 10**(bl // 4))
        if enc == "BCD-UP":
            return s_and(v >= 0, v < 10**(bl // 8))
    if dtype == "A_INT32":
        if enc in (None, "2C"):
            return s_and(v >= -(1 << (bl - 1)), v < (1 << (bl - 1)))
        if enc in ("1C", "SM"):
            return s_and(v > -(1 << (bl - 1)), v < (1 << (bl - 1)))
    raise ValueError(f"illegal pairing {dtype}/{enc}")


def int_raw(dtype, enc, bl, v):
    """raw unsigned bit pattern (as an int-like) of a representable v"""
    if dtype == "A_UINT32":
        if enc in (None, "NONE"):
            return v
        nd = bl // 4 if enc == "BCD-P" else bl // 8
        ds, _ = bcd_digits(v, nd)
        sh = 4 if enc == "BCD-P" else 8
        r = 0
        for i, d in enumerate(ds):
            r = r + (d << (sh * i))
        return r
    if enc in (None, "2C"):
        return v & ((1 << bl) - 1)
    if enc == "1C":
        return _ite(v >= 0, v, v + ((1 << bl) - 1))
    if enc == "SM":
        return _ite(v >= 0, v, (1 << (bl - 1)) - v)
    raise ValueError


def int_from_raw(dtype, enc, bl, r):
    """internal value of a raw pattern r (0 <= r < 2^bl)"""
    if dtype == "A_UINT32":
        if enc in (None, "NONE"):
            return r
        sh = 4 if enc == "BCD-P" else 8
        nd = bl // sh
        v = 0
        for i in range(nd):
            v = v + ((r >> (sh * i)) & 0xF) * (10**i)
        return v
    sign = 1 << (bl - 1)
    if enc in (None, "2C"):
        return _ite(r < sign, r, r - (1 << bl))
    if enc == "1C":
        return _ite(r < sign, r, r - ((1 << bl) - 1))
    if enc == "SM":
        return _ite(r < sign, r, sign - r)
    raise ValueError


def _ite(c, a, b):
    import z3
    if isinstance(c, bool):
        return a if c else b
    ce = core.boolterm(c)
    (l1, h1), (l2, h2) = core.rng(a), core.rng(b)
    return core.mkint(z3.If(ce, core.bv(a), core.bv(b)), min(l1, l2), max(h1, h2))


# ---------------------------------------------------------------------------
# PDU under construction: byte index -> 8-bit value (int-like), plus claimed-bit masks
# ---------------------------------------------------------------------------
class Pdu:
    def __init__(self):
        self.bytes = []  # int-likes 0..255
        self.mask = []  # concrete claimed-bit masks
        self.overlap = False

    def ensure(self, n):
        while len(self.bytes) < n:
            self.bytes.append(0)
            self.mask.append(0)

    def put(self, pos, value, mask):
        """value: int-like 0..255 with bits outside mask zero"""
        self.ensure(pos + 1)
        if self.mask[pos] & mask:
            self.overlap = True
        self.bytes[pos] = (self.bytes[pos] & (0xFF ^ mask)) | value
        self.mask[pos] |= mask

    def put_field(self, pos, bitpos, nbits, raw, hl, mask_bits=None):
        """numeric field: raw (int-like, 0 <= raw < 2^nbits) at bit position bitpos"""
        nb = (bitpos + nbits + 7) // 8
        full = raw << bitpos
        m = (((1 << nbits) - 1) if mask_bits is None else mask_bits) << bitpos
        for i in range(nb):
            k = nb - 1 - i  # significance of wire byte i in high-low order
            if not hl:
                k = i
            self.put(pos + i, (full >> (8 * k)) & 0xFF, (m >> (8 * k)) & 0xFF)
        return nb

    def put_bytes(self, pos, data):
        for i in range(len(data)):
            self.put(pos + i, data[i], 0xFF)
        if len(data) == 0:
            self.ensure(pos)
        return len(data)

    def result(self):
        return core.mkbytes([core.low8(b) for b in self.bytes])


def get_field(pdu, pos, bitpos, nbits, hl):
    nb = (bitpos + nbits + 7) // 8
    chunk = pdu[pos:pos + nb]
    if not hl:
        chunk = chunk[::-1]
    f = 0
    for i in range(nb):
        f = (f << 8) | chunk[i]
    return (f >> bitpos) & ((1 << nbits) - 1)
