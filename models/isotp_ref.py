"""Reference ISO 15765-2 segmenter and a deliberately naive reference reassembler.
Shares no code with odxtools.  Works on plain or symbolic byte sequences."""


def segment(payload, frame_size=8, padding=None, pad_to=None):
    """telegram -> list of frames (each a list of byte values).
    padding: iterable of pad byte values consumed for the last frame (may be symbolic)
    pad_to: length the last frame is padded to (None: no padding)"""
    n = len(payload)
    pad = list(padding or [])
    frames = []
    if frame_size <= 8:
        sf_max = frame_size - 1
    else:
        sf_max = 7  # CAN-FD single frames with escape length are not produced here
    if n <= sf_max:
        fr = [n] + list(payload)
        frames.append(fr)
    else:
        assert n <= 4095
        ff = [0x10 | (n >> 8), n & 0xFF] + list(payload[:frame_size - 2])
        frames.append(ff)
        pos = frame_size - 2
        sn = 1
        while pos < n:
            chunk = list(payload[pos:pos + frame_size - 1])
            frames.append([0x20 | (sn & 0xF)] + chunk)
            pos += frame_size - 1
            sn += 1
    if pad_to is not None:
        last = frames[-1]
        k = 0
        while len(last) < pad_to and k < len(pad):
            last.append(pad[k])
            k += 1
    return frames


def prefix(buf, n):
    """buf[:n] for 0 <= n (n may be symbolic: clamp first, so that only n < len forks)"""
    if n >= len(buf):
        return buf
    return buf[:n]


class RefReassembler:
    """per CAN id: cur = None | [n, buf(list), last_sn]"""

    def __init__(self, ids):
        self.ids = list(ids)
        self.cur = {i: None for i in self.ids}

    def step(self, rx_id, frame):
        """returns (kind, telegram|None, must) - `must`: the implementation is required to
        report (True) or merely allowed to report (False) this telegram"""
        if rx_id not in self.cur:
            return ("unknown-id", None, True)
        if len(frame) == 0:
            return ("empty", None, True)
        t = frame[0] >> 4
        if t == 0:
            ln = frame[0] & 0xF
            return ("single", prefix(frame[1:], ln), True)
        if t == 1:
            if len(frame) < 2:
                return ("short-first", None, True)
            n = ((frame[0] & 0xF) << 8) | frame[1]
            self.cur[rx_id] = [n, frame[2:], 0]
            return ("first", None, True)
        if t == 2:
            c = self.cur[rx_id]
            if c is None:
                return ("stray-consecutive", None, True)
            sn = frame[0] & 0xF
            if sn != (c[2] + 1) % 16:
                return ("sequence-error", None, True)
            had = len(c[1])
            c[1] = c[1] + frame[1:]
            c[2] = sn
            if len(c[1]) >= c[0]:
                tel = prefix(c[1], c[0])
                self.cur[rx_id] = None
                # a first frame that already carried its whole (bogus, too small) announced
                # length: reporting is allowed but not demanded
                return ("complete", tel, had < c[0])
            return ("consecutive", None, True)
        return ("other", None, True)
