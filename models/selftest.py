"""Differential validation of models/bitstruct_model.py against the two real bitstruct back ends
(concrete operands): every format shape the harnesses emit x boundary and seeded random
operands, including the error classes on which the back ends differ."""
import random
import struct

from models import bitstruct_model


def _real(variant):
    if variant == "c":
        import bitstruct.c as b
    else:
        import bitstruct as b
    return b


def _outcome(fn):
    try:
        return ("ok", fn())
    except Exception as e:  # noqa: BLE001
        return ("exc", type(e).__name__)


def _norm(x):
    if isinstance(x, tuple):
        return tuple(_norm(y) for y in x)
    if isinstance(x, (bytes, bytearray)):
        return bytes(x)
    if isinstance(x, float):
        return struct.pack(">d", x)
    return x


def run(seed=0, n_random=300):
    rnd = random.Random(seed)
    checked = 0
    failed = []
    for variant in ("c", "py"):
        real = _real(variant)
        model = bitstruct_model.Model(variant)
        cases = []
        for n in (1, 2, 7, 8, 9, 12, 16, 17, 31, 32, 33, 63, 64):
            for pad in (0, 1, 3, 7):
                fmt = (f"p{pad}" if pad else "") + f"u{n}"
                vals = [0, 1, (1 << n) - 1, 1 << (n - 1), (1 << n), -1] + \
                    [rnd.randrange(0, 1 << n) for _ in range(3)]
                for v in vals:
                    cases.append(("pack", fmt, (v,)))
                total = (pad + n + 7) // 8
                for _ in range(3):
                    data = bytes(rnd.randrange(256) for _ in range(total))
                    cases.append(("unpack_from", f"u{n}", (data, pad)))
                cases.append(("unpack_from", f"u{n}", (b"", pad)))
                cases.append(("unpack_from", f"u{n}", (bytes(max(total - 1, 0)), pad)))
        for n in (8, 16, 24, 64):
            for ln in (0, n // 8 - 1, n // 8, n // 8 + 1):
                if ln < 0:
                    continue
                data = bytes(rnd.randrange(256) for _ in range(ln))
                cases.append(("pack", f"r{n}", (data,)))
                cases.append(("unpack_from", f"r{n}", (data, 0)))
        for fmt, vals in (("f32", [0.0, -0.0, 1.5, 1e38, 3.4028235677973366e+38, 1e40, -1e40,
                                   float("inf"), 1e-50]),
                          ("f64", [0.0, -0.0, 1.5, 1e308, float("inf"), -float("inf"), 5e-324])):
            for v in vals:
                cases.append(("pack", fmt, (v,)))
            for _ in range(5):
                data = bytes(rnd.randrange(256) for _ in range(int(fmt[1:]) // 8))
                if fmt == "f32" and (data[0] & 0x7F) == 0x7F and data[1] & 0x80:
                    continue  # NaN payloads are not compared
                cases.append(("unpack_from", fmt, (data, 0)))
        cases += [("pack", "u8", (1.0,)), ("pack", "u4u4u8u8", (3, 0, 255, 0)),
                  ("unpack", "u4u4", (b"\x21\x00",)), ("unpack", "u4u12", (b"\x1f\xff\x01",)),
                  ("unpack", "u4u4", (b"",)), ("unpack", "u4u12", (b"\x10",))]
        for kind, fmt, args in cases[:4000]:
            a = _outcome(lambda: _norm(getattr(real, kind)(fmt, *args)))
            b = _outcome(lambda: _norm(getattr(model, kind)(fmt, *args)))
            checked += 1
            if a[0] != b[0] or (a[0] == "ok" and a[1] != b[1]) or \
               (a[0] == "exc" and a[1] != b[1] and {a[1], b[1]} != {"Error"}):
                failed.append(f"{variant}: {kind}({fmt!r}, {args!r}): real {a} model {b}")
    return {"checked": checked, "failed": failed[:10]}


if __name__ == "__main__":
    print(run())
