"""Layer hierarchies (protocol / functional group / base variant / ECU variant) with communication
parameters, built as the real odxtools objects and finalised through Database.refresh().

spec = {
  "specs":  [{"name": "CP_Baudrate", "default": "500000"},
             {"name": "CP_UniqueRespIdTable", "sub": [("CP_CanPhysReqId", "1"), ...]}],
  "layers": [{"name": "P1", "type": "protocol", "parents": [],
              "comparams": [{"cp": "CP_Baudrate", "value": <str|list|None>, "protocol": None}]},
             ...]   # parents before children
}
"""
from odxtools.nameditemlist import NamedItemList
from odxtools.odxlink import OdxLinkRef

from .build import mk, oid


def build_hierarchy(spec):
    from odxtools.basecomparam import StandardizationLevel
    from odxtools.comparam import Comparam
    from odxtools.comparaminstance import ComparamInstance
    from odxtools.comparamspec import ComparamSpec
    from odxtools.comparamsubset import ComparamSubset
    from odxtools.complexcomparam import ComplexComparam
    from odxtools.database import Database
    from odxtools.diaglayercontainer import DiagLayerContainer
    from odxtools.diaglayers.basevariant import BaseVariant
    from odxtools.diaglayers.basevariantraw import BaseVariantRaw
    from odxtools.diaglayers.diaglayertype import DiagLayerType
    from odxtools.diaglayers.ecuvariant import EcuVariant
    from odxtools.diaglayers.ecuvariantraw import EcuVariantRaw
    from odxtools.diaglayers.ecushareddata import EcuSharedData
    from odxtools.diaglayers.ecushareddataraw import EcuSharedDataRaw
    from odxtools.diaglayers.functionalgroup import FunctionalGroup
    from odxtools.diaglayers.functionalgroupraw import FunctionalGroupRaw
    from odxtools.diaglayers.protocol import Protocol
    from odxtools.diaglayers.protocolraw import ProtocolRaw
    from odxtools.parentref import ParentRef

    def simple(name, default):
        return mk(Comparam, odx_id=oid("cps." + name), short_name=name, param_class="COM",
                  cptype=StandardizationLevel.STANDARD, dop_ref=OdxLinkRef.from_id(oid("cps.dop")),
                  physical_default_value=default)

    subsets_spec = {}
    for sp_ in spec["specs"]:
        subsets_spec.setdefault(sp_.get("subset", "cps"), []).append(sp_)
    from catalogue.build import Builder
    subsets = []
    for sname, entries in subsets_spec.items():
        simples, complexes = [], []
        for s in entries:
            sid = s.get("id", f"{sname}.{s['name']}")
            if s.get("from_xml"):
                # the specification as ODX text, read by ComplexComparam.from_et; a sub-parameter
                # given as (name, [(name, default), ...]) is a nested COMPLEX-COMPARAM
                from xml.etree import ElementTree
                from xml.sax.saxutils import escape
                from .build import FRAGS

                def cp_xml(cid, n, d):
                    return (f'<COMPARAM ID="{cid}" PARAM-CLASS="COM" CPTYPE="STANDARD"><SHORT-NAME>{n}'
                            f'</SHORT-NAME><PHYSICAL-DEFAULT-VALUE>{escape(str(d))}'
                            f'</PHYSICAL-DEFAULT-VALUE><DATA-OBJECT-PROP-REF ID-REF="cps.dop"/></COMPARAM>')

                def cx_xml(cid, n, subs):
                    body = ""
                    for sn, sd in subs:
                        body += cx_xml(f"{cid}.{sn}", sn, sd) if isinstance(sd, list) else \
                            cp_xml(f"{cid}.{sn}", sn, sd)
                    return (f'<COMPLEX-COMPARAM ID="{cid}" PARAM-CLASS="UNIQUE_ID" CPTYPE="STANDARD">'
                            f'<SHORT-NAME>{n}</SHORT-NAME>{body}</COMPLEX-COMPARAM>')
                complexes.append(ComplexComparam.from_et(
                    ElementTree.fromstring(cx_xml(sid, s["name"], s["sub"])), FRAGS))
                continue
            if "sub" in s:
                subs = NamedItemList([simple(f"{n}", d) for n, d in s["sub"]])
                for sp in subs:  # sub-parameters have their own ids
                    sp.odx_id = oid(f"{sid}.{sp.short_name}")
                complexes.append(mk(ComplexComparam, odx_id=oid(sid), short_name=s["name"],
                                    param_class="UNIQUE_ID", cptype=StandardizationLevel.STANDARD,
                                    subparams=subs, physical_default_value=s.get("default")))
            else:
                c = simple(s["name"], s.get("default"))
                c.odx_id = oid(sid)
                simples.append(c)
        b = Builder()
        dop = b.dop({"dt": "A_UINT32", "bl": 32})
        dop.odx_id = oid("cps.dop") if sname == "cps" else oid(sname + ".dop")
        subsets.append(mk(ComparamSubset, odx_id=oid(sname), short_name=sname,
                          comparams=NamedItemList(simples), complex_comparams=NamedItemList(complexes),
                          data_object_props=NamedItemList([dop]), category="x"))

    kinds = {
        "protocol": (ProtocolRaw, Protocol, DiagLayerType.PROTOCOL),
        "functional-group": (FunctionalGroupRaw, FunctionalGroup, DiagLayerType.FUNCTIONAL_GROUP),
        "base-variant": (BaseVariantRaw, BaseVariant, DiagLayerType.BASE_VARIANT),
        "ecu-variant": (EcuVariantRaw, EcuVariant, DiagLayerType.ECU_VARIANT),
        "ecu-shared-data": (EcuSharedDataRaw, EcuSharedData, DiagLayerType.ECU_SHARED_DATA),
    }
    layers = {}
    instances = {}
    by_kind = {k: [] for k in kinds}

    def make_instances(ls):
        cps = []
        for i, c in enumerate(ls.get("comparams", [])):
            if c.get("xml"):
                from xml.etree import ElementTree
                from .build import FRAGS
                inst = ComparamInstance.from_et(ElementTree.fromstring(c["xml"]), FRAGS)
                cps.append(inst)
                instances[c.get("tag", f"{ls['name']}#{i}")] = inst
                continue
            inst = ComparamInstance(value=c["value"], description=None,
                                    protocol_snref=c.get("protocol"), prot_stack_snref=None,
                                    spec_ref=OdxLinkRef.from_id(oid(c.get("spec_id", "cps." + c["cp"]))))
            cps.append(inst)
            instances[c.get("tag", f"{ls['name']}#{i}")] = inst
        return cps

    for ls in spec["layers"]:
        rawcls, cls, vt = kinds[ls["type"]]
        # "first_comparams": what the layer defines before it is edited (see "edited" below)
        cps = make_instances(dict(ls, comparams=ls["first_comparams"])
                             if "first_comparams" in ls else ls)
        # "not_inherited": {"dops": [...], "tables": [...], ...} applies to every PARENT-REF of the layer
        ni = {"not_inherited_" + k: list(v) for k, v in ls.get("not_inherited", {}).items()}
        prefs = [mk(ParentRef, layer_ref=OdxLinkRef.from_id(oid("layer." + p)), **ni)
                 for p in ls["parents"]]
        kw = dict(odx_id=oid("layer." + ls["name"]), short_name=ls["name"], variant_type=vt)
        if ls.get("dops"):
            # data object properties of the layer's own data dictionary (8-bit numbers)
            from odxtools.diagdatadictionaryspec import DiagDataDictionarySpec
            from .build import dop as _dop
            dops = []
            for n in ls["dops"]:
                d = _dop(n, {"dt": "A_UINT32", "bl": 8})
                d.odx_id = oid(f"layer.{ls['name']}.dop.{n}")
                dops.append(d)
            kw["diag_data_dictionary_spec"] = mk(DiagDataDictionarySpec,
                                                 data_object_props=NamedItemList(dops))
        if ls["type"] != "ecu-shared-data":
            kw.update(comparam_refs=cps, parent_refs=prefs)
        if ls["type"] == "protocol":
            kw["comparam_spec_ref"] = OdxLinkRef.from_id(oid("cpspec"))
        raw = mk(rawcls, **kw)
        layer = cls(diag_layer_raw=raw)
        layers[ls["name"]] = layer
        by_kind[ls["type"]].append(layer)
    if spec.get("edited"):
        # one container per layer, children BEFORE their parents; the database is finalised, then
        # every layer's definitions are replaced by the final ones and the database is refreshed
        dlcs = []
        for ls in reversed(spec["layers"]):
            one = {k: [] for k in kinds}
            one[ls["type"]].append(layers[ls["name"]])
            dlcs.append(mk(DiagLayerContainer, odx_id=oid("dlc." + ls["name"]),
                           short_name="dlc_" + ls["name"],
                           protocols=NamedItemList(one["protocol"]),
                           functional_groups=NamedItemList(one["functional-group"]),
                           base_variants=NamedItemList(one["base-variant"]),
                           ecu_variants=NamedItemList(one["ecu-variant"]),
                           ecu_shared_datas=NamedItemList(one["ecu-shared-data"])))
        db = Database()
        db._diag_layer_containers = NamedItemList(dlcs)
        db._comparam_subsets = NamedItemList(subsets)
        db._comparam_specs = NamedItemList([mk(ComparamSpec, odx_id=oid("cpspec"), short_name="cpspec")])
        db.refresh()
        instances.clear()
        for ls in spec["layers"]:
            if ls["type"] != "ecu-shared-data":
                layers[ls["name"]].diag_layer_raw.comparam_refs = make_instances(ls)
        db.refresh()
        return {"db": db, "layers": layers, "instances": instances}
    dlc = mk(DiagLayerContainer, odx_id=oid("dlc"), short_name="dlc",
             protocols=NamedItemList(by_kind["protocol"]),
             functional_groups=NamedItemList(by_kind["functional-group"]),
             base_variants=NamedItemList(by_kind["base-variant"]),
             ecu_variants=NamedItemList(by_kind["ecu-variant"]),
             ecu_shared_datas=NamedItemList(by_kind["ecu-shared-data"]))
    db = Database()
    db._diag_layer_containers = NamedItemList([dlc])
    db._comparam_subsets = NamedItemList(subsets)
    db._comparam_specs = NamedItemList([mk(ComparamSpec, odx_id=oid("cpspec"), short_name="cpspec")])
    db.refresh()
    return {"db": db, "layers": layers, "instances": instances}
