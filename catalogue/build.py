"""Builds real odxtools objects (as the repo's own tests do) from compact JSON-able specs.
References are resolved by the real _build_odxlinks/_resolve_odxlinks/_resolve_snrefs."""
import dataclasses
import typing

from odxtools.compumethods.compuconst import CompuConst
from odxtools.compumethods.compudefaultvalue import CompuDefaultValue
from odxtools.compumethods.compuinternaltophys import CompuInternalToPhys
from odxtools.compumethods.compuinversevalue import CompuInverseValue
from odxtools.compumethods.compumethod import CompuCategory
from odxtools.compumethods.compuphystointernal import CompuPhysToInternal
from odxtools.compumethods.compurationalcoeffs import CompuRationalCoeffs
from odxtools.compumethods.compuscale import CompuScale
from odxtools.compumethods.identicalcompumethod import IdenticalCompuMethod
from odxtools.compumethods.limit import IntervalType, Limit
from odxtools.compumethods.linearcompumethod import LinearCompuMethod
from odxtools.compumethods.ratfunccompumethod import RatFuncCompuMethod
from odxtools.compumethods.scalelinearcompumethod import ScaleLinearCompuMethod
from odxtools.compumethods.scaleratfunccompumethod import ScaleRatFuncCompuMethod
from odxtools.compumethods.tabintpcompumethod import TabIntpCompuMethod
from odxtools.compumethods.texttablecompumethod import TexttableCompuMethod
from odxtools.dataobjectproperty import DataObjectProperty
from odxtools.encoding import Encoding
from odxtools.leadinglengthinfotype import LeadingLengthInfoType
from odxtools.minmaxlengthtype import MinMaxLengthType, Termination
from odxtools.nameditemlist import NamedItemList
from odxtools.odxlink import DocType, OdxDocFragment, OdxLinkDatabase, OdxLinkId, OdxLinkRef
from odxtools.odxtypes import DataType
from odxtools.paramlengthinfotype import ParamLengthInfoType
from odxtools.parameters.codedconstparameter import CodedConstParameter
from odxtools.parameters.lengthkeyparameter import LengthKeyParameter
from odxtools.parameters.matchingrequestparameter import MatchingRequestParameter
from odxtools.parameters.nrcconstparameter import NrcConstParameter
from odxtools.parameters.physicalconstantparameter import PhysicalConstantParameter
from odxtools.parameters.reservedparameter import ReservedParameter
from odxtools.parameters.valueparameter import ValueParameter
from odxtools.physicaltype import PhysicalType
from odxtools.request import Request
from odxtools.response import Response, ResponseType
from odxtools.snrefcontext import SnRefContext
from odxtools.standardlengthtype import StandardLengthType
from odxtools.structure import Structure
from odxtools.staticfield import StaticField
from odxtools.dynamiclengthfield import DynamicLengthField
from odxtools.determinenumberofitems import DetermineNumberOfItems
from odxtools.endofpdufield import EndOfPduField
from odxtools.dynamicendmarkerfield import DynamicEndmarkerField
from odxtools.dynenddopref import DynEndDopRef
from odxtools.multiplexer import Multiplexer
from odxtools.dtcdop import DtcDop
from odxtools.diagnostictroublecode import DiagnosticTroubleCode
from odxtools.table import Table
from odxtools.tablerow import TableRow
from odxtools.parameters.tablekeyparameter import TableKeyParameter
from odxtools.parameters.tablestructparameter import TableStructParameter
from odxtools.multiplexercase import MultiplexerCase
from odxtools.multiplexerdefaultcase import MultiplexerDefaultCase
from odxtools.multiplexerswitchkey import MultiplexerSwitchKey

FRAGS = [OdxDocFragment("Verif", DocType.CONTAINER)]


def mk(cls, **kw):
    """construct a dataclass, filling every field that has no default and is not given:
    Optional -> None, List -> [], NamedItemList -> NamedItemList(), Dict -> {}"""
    for f in dataclasses.fields(cls):
        if f.name in kw or not f.init:
            continue
        if f.default is not dataclasses.MISSING or f.default_factory is not dataclasses.MISSING:
            continue
        t = f.type if isinstance(f.type, str) else getattr(f.type, "__name__", None) or str(f.type)
        ts = str(f.type)
        if "NamedItemList" in ts:
            kw[f.name] = NamedItemList()
        elif ts.startswith(("typing.List", "List", "list")):
            kw[f.name] = []
        elif ts.startswith(("typing.Dict", "Dict", "dict")):
            kw[f.name] = {}
        elif "Optional" in ts or "None" in ts:
            kw[f.name] = None
        else:
            raise TypeError(f"mk({cls.__name__}): field {f.name}: {ts} needs a value")
    return cls(**kw)


def oid(name):
    return OdxLinkId(name, FRAGS)


def ref(name):
    return OdxLinkRef(name, FRAGS)


def dt(name):
    return DataType(name)


def enc(name):
    return None if name is None else Encoding(name)


# ---------------------------------------------------------------------------
# diag coded types
# ---------------------------------------------------------------------------
def diag_coded_type(s):
    kind = s.get("dct", "std")
    base = dict(base_data_type=dt(s["dt"]), base_type_encoding=enc(s.get("enc")),
                is_highlow_byte_order_raw=s.get("hl"))
    if kind == "std":
        return StandardLengthType(bit_length=s["bl"], bit_mask=s.get("mask"),
                                  is_condensed_raw=s.get("condensed"), **base)
    if kind == "minmax":
        return MinMaxLengthType(min_length=s["min"], max_length=s.get("max"),
                                termination=Termination(s["term"]), **base)
    if kind == "leading":
        return LeadingLengthInfoType(bit_length=s["bl"], **base)
    if kind == "paramlen":
        return ParamLengthInfoType(length_key_ref=ref(s["length_key"]), **base)
    raise ValueError(kind)


# ---------------------------------------------------------------------------
# compu methods
# ---------------------------------------------------------------------------
def _limit(v, vt, it="CLOSED"):
    if isinstance(v, dict):
        it = v.get("it", it)
        v = v.get("v")
    if v is None and it != "INFINITE":
        return None  # the element is absent
    return Limit(value_raw=None if v is None else str(v), value_type=vt,
                 interval_type=None if it is None else IntervalType(it))


def _scale(sc, it, pt):
    coeffs = None
    if "num" in sc:
        coeffs = CompuRationalCoeffs(value_type=pt, numerators=list(sc["num"]),
                                     denominators=list(sc.get("den", [])))
    const = None
    if "const" in sc:
        c = sc["const"]
        const = CompuConst(v=None if isinstance(c, str) else str(c),
                           vt=c if isinstance(c, str) else None, data_type=pt)
    inv = None
    if "inv" in sc:
        inv = CompuInverseValue(v=str(sc["inv"]), vt=None, data_type=it)
    return CompuScale(short_label=None, description=None,
                      lower_limit=_limit(sc.get("lo"), it), upper_limit=_limit(sc.get("hi"), it),
                      compu_inverse_value=inv, compu_const=const, compu_rational_coeffs=coeffs,
                      domain_type=it, range_type=pt)


def compu_method(s, internal_type, physical_type):
    cat = s.get("cat", "IDENTICAL")
    it, pt = internal_type, physical_type
    if cat == "IDENTICAL":
        return IdenticalCompuMethod(category=CompuCategory.IDENTICAL, compu_internal_to_phys=None,
                                    compu_phys_to_internal=None, internal_type=it, physical_type=pt)
    scales = [_scale(sc, it, pt) for sc in s.get("scales", [])]
    default = None
    if "default" in s:
        d = s["default"]
        default = CompuDefaultValue(v=None if isinstance(d, str) else str(d),
                                    vt=d if isinstance(d, str) else None, data_type=pt,
                                    compu_inverse_value=None)
    i2p = CompuInternalToPhys(compu_scales=scales, prog_code=None, compu_default_value=default)
    p2i = None
    if "inv_scales" in s or "inv_default" in s:
        # COMPU-PHYS-TO-INTERNAL, optionally with its own COMPU-DEFAULT-VALUE (the coded value that
        # is sent for physical values outside all scales)
        idef = None
        if "inv_default" in s:
            idef = CompuDefaultValue(v=str(s["inv_default"]), vt=None, data_type=it,
                                     compu_inverse_value=None)
        p2i = CompuPhysToInternal(compu_scales=[_scale(sc, pt, it) for sc in s.get("inv_scales", [])],
                                  prog_code=None, compu_default_value=idef)
    cls = {
        "LINEAR": LinearCompuMethod, "SCALE-LINEAR": ScaleLinearCompuMethod,
        "TEXTTABLE": TexttableCompuMethod, "TAB-INTP": TabIntpCompuMethod,
        "RAT-FUNC": RatFuncCompuMethod, "SCALE-RAT-FUNC": ScaleRatFuncCompuMethod,
    }[cat]
    return cls(category=CompuCategory(cat), compu_internal_to_phys=i2p, compu_phys_to_internal=p2i,
               internal_type=it, physical_type=pt)


def compu_method_xml(s):
    """the same description as ODX text (COMPU-METHOD element)"""
    from xml.sax.saxutils import escape

    def lim(tag, v):
        it = "CLOSED"
        if isinstance(v, dict):
            it, v = v.get("it", "CLOSED"), v.get("v")
        if v is None and it != "INFINITE":
            return ""
        body = "" if v is None else escape(str(v))
        return f'<{tag} INTERVAL-TYPE="{it}">{body}</{tag}>'

    def val(c):
        return f"<VT>{escape(c)}</VT>" if isinstance(c, str) else f"<V>{c}</V>"

    def scale(sc):
        out = "<COMPU-SCALE>" + lim("LOWER-LIMIT", sc.get("lo")) + lim("UPPER-LIMIT", sc.get("hi"))
        if "inv" in sc:
            out += f"<COMPU-INVERSE-VALUE>{val(sc['inv'])}</COMPU-INVERSE-VALUE>"
        if "const" in sc:
            out += f"<COMPU-CONST>{val(sc['const'])}</COMPU-CONST>"
        if "num" in sc:
            out += "<COMPU-RATIONAL-COEFFS><COMPU-NUMERATOR>" + "".join(f"<V>{c}</V>" for c in sc["num"]) + \
                "</COMPU-NUMERATOR>"
            if sc.get("den"):
                out += "<COMPU-DENOMINATOR>" + "".join(f"<V>{c}</V>" for c in sc["den"]) + \
                    "</COMPU-DENOMINATOR>"
            out += "</COMPU-RATIONAL-COEFFS>"
        return out + "</COMPU-SCALE>"

    cat = s.get("cat", "IDENTICAL")
    out = f"<COMPU-METHOD><CATEGORY>{cat}</CATEGORY>"
    if cat != "IDENTICAL":
        out += "<COMPU-INTERNAL-TO-PHYS><COMPU-SCALES>" + "".join(scale(sc) for sc in s.get("scales", [])) + \
            "</COMPU-SCALES>"
        if "default" in s:
            out += f"<COMPU-DEFAULT-VALUE>{val(s['default'])}</COMPU-DEFAULT-VALUE>"
        out += "</COMPU-INTERNAL-TO-PHYS>"
        if "inv_scales" in s or "inv_default" in s:
            out += "<COMPU-PHYS-TO-INTERNAL>"
            if "inv_scales" in s:
                out += "<COMPU-SCALES>" + "".join(scale(sc) for sc in s["inv_scales"]) + "</COMPU-SCALES>"
            if "inv_default" in s:
                out += f"<COMPU-DEFAULT-VALUE>{val(s['inv_default'])}</COMPU-DEFAULT-VALUE>"
            out += "</COMPU-PHYS-TO-INTERNAL>"
    return out + "</COMPU-METHOD>"


def compu_method_from_xml(s, internal_type, physical_type):
    """built by odxtools' own parser from the ODX text of the description"""
    from xml.etree import ElementTree
    from odxtools.compumethods.createanycompumethod import create_any_compu_method_from_et
    return create_any_compu_method_from_et(ElementTree.fromstring(compu_method_xml(s)), FRAGS,
                                           internal_type=internal_type, physical_type=physical_type)


# ---------------------------------------------------------------------------
# DOPs
# ---------------------------------------------------------------------------
def dop(name, s):
    dct = diag_coded_type(s)
    it = dct.base_data_type
    pt = dt(s.get("ptype") or ("A_UNICODE2STRING" if s["dt"] in ("A_ASCIISTRING", "A_UTF8STRING")
                               else s["dt"]))
    cm = compu_method(s.get("cm", {}), it, pt)
    return mk(DataObjectProperty, odx_id=oid(name), short_name=name, diag_coded_type=dct,
              physical_type=PhysicalType(pt, display_radix=None, precision=None), compu_method=cm)


# ---------------------------------------------------------------------------
# parameters / composites
# ---------------------------------------------------------------------------
class Builder:
    """collects every object with an ODXLINK id so that references can be resolved"""

    def __init__(self):
        self.objs = []
        self.n = 0

    def fresh(self, stem):
        self.n += 1
        return f"{stem}_{self.n}"

    def dop(self, s, name=None):
        d = dop(name or self.fresh("dop"), s)
        self.objs.append(d)
        return d

    def param(self, p):
        k = p["kind"]
        common = dict(short_name=p["name"], byte_position=p.get("bytepos"),
                      bit_position=p.get("bitpos"), semantic=p.get("semantic"))
        if k == "const":
            return mk(CodedConstParameter, diag_coded_type=diag_coded_type(p["type"]),
                      coded_value=_const_value(p["type"], p["value"]), **common)
        if k == "value":
            d = self.complex_or_dop(p["dop"])
            dv = p.get("default")
            return mk(ValueParameter, dop_ref=OdxLinkRef.from_id(d.odx_id), dop_snref=None,
                      physical_default_value_raw=None if dv is None else str(dv), **common)
        if k == "physconst":
            d = self.dop(p["dop"])
            return mk(PhysicalConstantParameter, dop_ref=OdxLinkRef.from_id(d.odx_id),
                      dop_snref=None, physical_constant_value_raw=str(p["value"]), **common)
        if k == "reserved":
            return mk(ReservedParameter, bit_length=p["bl"], **common)
        if k == "matchreq":
            return mk(MatchingRequestParameter, request_byte_position=p["rqpos"],
                      byte_length=p["len"], **common)
        if k == "nrcconst":
            return mk(NrcConstParameter, diag_coded_type=diag_coded_type(p["type"]),
                      coded_values=list(p["values"]), **common)
        if k == "lengthkey":
            d = self.dop(p["dop"])
            return mk(LengthKeyParameter, odx_id=oid(p["id"]),
                      dop_ref=OdxLinkRef.from_id(d.odx_id), dop_snref=None, **common)
        if k == "system":
            from odxtools.parameters.systemparameter import SystemParameter
            d = self.dop(p["dop"])
            return mk(SystemParameter, dop_ref=OdxLinkRef.from_id(d.odx_id), dop_snref=None,
                      sysparam=p["sysparam"], **common)
        if k == "tablekey":
            t = self.table(p["table"])
            row_ref = None
            if p.get("row") is not None:
                row = [r for r in t.table_rows_raw if r.short_name == p["row"]][0]
                row_ref = OdxLinkRef.from_id(row.odx_id)
            tk = mk(TableKeyParameter, odx_id=oid(p["id"]),
                    table_ref=None if row_ref is not None else OdxLinkRef.from_id(t.odx_id),
                    table_snref=None, table_row_ref=row_ref, table_row_snref=None, **common)
            return tk
        if k == "tablestruct":
            return mk(TableStructParameter, table_key_ref=ref(p["key"]), table_key_snref=None,
                      **common)
        raise ValueError(k)

    def table(self, t):
        if t["name"] in getattr(self, "_tables", {}):
            return self._tables[t["name"]]
        kd = self.dop(t["key_dop"])
        tid = oid(t["name"] + "_id")
        rows = []
        for r in t["rows"]:
            st = self.structure(r["structure"]) if r.get("structure") else None
            rd = self.dop(r["dop"]) if r.get("dop") else None
            rows.append(mk(TableRow, odx_id=oid(f"{t['name']}_{r['name']}_id"), short_name=r["name"],
                           key_raw=str(r["key"]), table_ref=OdxLinkRef.from_id(tid),
                           dop_ref=None if rd is None else OdxLinkRef.from_id(rd.odx_id),
                           dop_snref=None,
                           structure_ref=None if st is None else OdxLinkRef.from_id(st.odx_id),
                           structure_snref=None))
        tb = mk(Table, odx_id=tid, short_name=t["name"], key_dop_ref=OdxLinkRef.from_id(kd.odx_id),
                table_rows_raw=list(rows))
        self.objs.append(tb)
        self._tables = getattr(self, "_tables", {})
        self._tables[t["name"]] = tb
        return tb

    def complex_or_dop(self, s):
        k = s.get("complex")
        if k is None:
            return self.dop(s)
        if k == "structure":
            return self.structure(s)
        if k == "envdatadesc":
            from odxtools.environmentdata import EnvironmentData
            from odxtools.environmentdatadescription import EnvironmentDataDescription
            eds = []
            for e in s["datas"]:
                params = NamedItemList([self.param(p) for p in e["params"]])
                if s.get("xml"):
                    # the ENV-DATA element as ODX text (VALUE parameters referring to the DOPs built
                    # above), read by odxtools' own parser
                    from xml.etree import ElementTree
                    px = "".join(
                        f'<PARAM {XSI} xsi:type="VALUE"><SHORT-NAME>{q.short_name}</SHORT-NAME>'
                        f'<DOP-REF ID-REF="{q.dop_ref.ref_id}"/></PARAM>' for q in params)
                    sel = "<ALL-VALUE/>" if e.get("all") else "<DTC-VALUES>" + "".join(
                        f"<DTC-VALUE>{c}</DTC-VALUE>" for c in e.get("dtcs", [])) + "</DTC-VALUES>"
                    ed = EnvironmentData.from_et(ElementTree.fromstring(
                        f'<ENV-DATA ID="{self.fresh("envdata")}"><SHORT-NAME>{e["name"]}</SHORT-NAME>'
                        f'<PARAMS>{px}</PARAMS>{sel}</ENV-DATA>'), FRAGS)
                    self.objs.append(ed)
                    eds.append(ed)
                    continue
                ed = mk(EnvironmentData, odx_id=oid(self.fresh("envdata")), short_name=e["name"],
                        parameters=params, byte_size=None, all_value=e.get("all"),
                        dtc_values=list(e.get("dtcs", [])))
                eds.append(ed)
            d = mk(EnvironmentDataDescription, odx_id=oid(self.fresh("edd")),
                   short_name=self.fresh("edd"), param_snref=s["param"], param_snpathref=None,
                   env_datas=NamedItemList(eds), env_data_refs=[])
            self.objs.append(d)
            return d
        if k == "dtc":
            dct = diag_coded_type(s)
            it = dct.base_data_type
            cm = compu_method(s.get("cm", {}), it, it)
            dtcs = [mk(DiagnosticTroubleCode, odx_id=oid(self.fresh("dtc")), short_name=d["name"],
                       trouble_code=d["code"], text=d["name"]) for d in s["dtcs"]]
            d = mk(DtcDop, odx_id=oid(self.fresh("dtcdop")), short_name=self.fresh("dtcdop"),
                   diag_coded_type=dct, physical_type=PhysicalType(it, display_radix=None,
                                                                   precision=None),
                   compu_method=cm, dtcs_raw=list(dtcs), linked_dtc_dops_raw=[], is_visible_raw=None)
            self.objs.append(d)
            return d
        if k == "mux":
            kd = self.dop(s["key_dop"])
            cases = []
            for c in s["cases"]:
                st = self.structure(c["structure"]) if c.get("structure") else None
                cases.append(mk(MultiplexerCase, short_name=c["name"],
                                structure_ref=None if st is None else OdxLinkRef.from_id(st.odx_id),
                                structure_snref=None,
                                lower_limit=_limit(c["lo"], None), upper_limit=_limit(c["hi"], None)))
            dc = None
            if s.get("default"):
                st = self.structure(s["default"]["structure"]) if s["default"].get("structure") else None
                dc = mk(MultiplexerDefaultCase, short_name=s["default"]["name"],
                        structure_ref=None if st is None else OdxLinkRef.from_id(st.odx_id),
                        structure_snref=None)
            m = mk(Multiplexer, odx_id=oid(self.fresh("mux")), short_name=s.get("name") or
                   self.fresh("mux"), byte_position=s["bytepos"],
                   switch_key=MultiplexerSwitchKey(byte_position=s.get("key_bytepos", 0),
                                                   bit_position=s.get("key_bitpos"),
                                                   dop_ref=OdxLinkRef.from_id(kd.odx_id)),
                   default_case=dc, cases=NamedItemList(cases), is_visible_raw=None)
            self.objs.append(m)
            return m
        if k in ("staticfield", "dynlenfield", "eopfield", "endmarkerfield"):
            st = self.structure(s["structure"])
            common = dict(odx_id=oid(self.fresh(k)), short_name=s.get("name", self.fresh(k)),
                          structure_ref=OdxLinkRef.from_id(st.odx_id), structure_snref=None,
                          env_data_desc_ref=None, env_data_desc_snref=None, is_visible_raw=None)
            if k == "staticfield":
                f = mk(StaticField, fixed_number_of_items=s["count"],
                       item_byte_size=s["item_byte_size"], **common)
            elif k == "dynlenfield":
                nd = self.dop(s["count_dop"])
                f = mk(DynamicLengthField, offset=s["offset"],
                       determine_number_of_items=DetermineNumberOfItems(
                           byte_position=s.get("count_bytepos", 0),
                           bit_position=s.get("count_bitpos"),
                           dop_ref=OdxLinkRef.from_id(nd.odx_id)), **common)
            elif k == "eopfield":
                f = mk(EndOfPduField, min_number_of_items=s.get("min"),
                       max_number_of_items=s.get("max"), **common)
            else:
                ed = self.dop(s["end_dop"])
                f = mk(DynamicEndmarkerField, dyn_end_dop_ref=DynEndDopRef(
                    ref_id=ed.odx_id.local_id, ref_docs=ed.odx_id.doc_fragments,
                    termination_value_raw=str(s["end_value"])), **common)
            self.objs.append(f)
            return f
        raise ValueError(k)

    def structure(self, s):
        params = NamedItemList([self.param(p) for p in s["params"]])
        st = mk(Structure, odx_id=oid(self.fresh("struct")), short_name=s.get("name") or
                self.fresh("struct"), parameters=params, byte_size=s.get("byte_size"),
                is_visible_raw=None)
        self.objs.append(st)
        return st

    def request(self, s, name="rq"):
        params = NamedItemList([self.param(p) for p in s["params"]])
        r = mk(Request, odx_id=oid(self.fresh(name)), short_name=name, parameters=params)
        self.objs.append(r)
        return r

    def response(self, s, name="resp", rtype="POS-RESPONSE"):
        params = NamedItemList([self.param(p) for p in s["params"]])
        r = mk(Response, odx_id=oid(self.fresh(name)), short_name=name, parameters=params,
               response_type=ResponseType(rtype))
        self.objs.append(r)
        return r

    def resolve(self):
        db = OdxLinkDatabase()
        for o in self.objs:
            db.update(o._build_odxlinks())
        for o in self.objs:
            o._resolve_odxlinks(db)
        import types
        from odxtools.basicstructure import BasicStructure
        from odxtools.dopbase import DopBase
        ddds = types.SimpleNamespace(
            structures=NamedItemList([o for o in self.objs if isinstance(o, BasicStructure)]),
            env_data_descs=NamedItemList(),
            all_data_object_properties=NamedItemList([o for o in self.objs
                                                      if isinstance(o, DopBase)]))
        layer = types.SimpleNamespace(diag_data_dictionary_spec=ddds)
        for o in self.objs:
            o._resolve_snrefs(SnRefContext(diag_layer=layer))
        return db


def _const_value(tspec, v):
    if tspec["dt"] == "A_BYTEFIELD" and isinstance(v, str):
        return bytearray.fromhex(v)
    return v


def build_request(spec):
    b = Builder()
    rq = b.request(spec)
    b.resolve()
    return rq


XSI = 'xmlns:xsi="http://www.w3.org/2001/XMLSchema-instance"'


def _dct_xml(s):
    kind = {"std": "STANDARD-LENGTH-TYPE", "minmax": "MIN-MAX-LENGTH-TYPE",
            "leading": "LEADING-LENGTH-INFO-TYPE"}[s.get("dct", "std")]
    attrs = f'{XSI} xsi:type="{kind}" BASE-DATA-TYPE="{s["dt"]}"'
    if s.get("enc") is not None:
        attrs += f' BASE-TYPE-ENCODING="{s["enc"]}"'
    if s.get("hl") is not None:
        attrs += f' IS-HIGHLOW-BYTE-ORDER="{"true" if s["hl"] else "false"}"'
    if s.get("condensed") is not None:
        attrs += f' IS-CONDENSED="{"true" if s["condensed"] else "false"}"'
    if kind == "MIN-MAX-LENGTH-TYPE":
        attrs += f' TERMINATION="{s["term"]}"'
    body = ""
    if kind != "MIN-MAX-LENGTH-TYPE":
        body += f"<BIT-LENGTH>{s['bl']}</BIT-LENGTH>"
    if s.get("mask") is not None:
        hexmask = f"{s['mask']:X}"
        body += f"<BIT-MASK>{hexmask if len(hexmask) % 2 == 0 else '0' + hexmask}</BIT-MASK>"
    if kind == "MIN-MAX-LENGTH-TYPE":
        body += f"<MIN-LENGTH>{s['min']}</MIN-LENGTH>"
        if s.get("max") is not None:
            body += f"<MAX-LENGTH>{s['max']}</MAX-LENGTH>"
    return f"<DIAG-CODED-TYPE {attrs}>{body}</DIAG-CODED-TYPE>"


def build_request_xml(spec):
    """the same request, but every object is read from its ODX text by odxtools' own parser
    (CODED-CONST and VALUE parameters, simple DOPs with any compu method)"""
    from xml.etree import ElementTree
    from odxtools.dataobjectproperty import DataObjectProperty as DOP
    from odxtools.request import Request as RQ
    dops, params = [], ""
    for i, p in enumerate(spec["params"]):
        pos = ""
        if p.get("bytepos") is not None:
            pos += f"<BYTE-POSITION>{p['bytepos']}</BYTE-POSITION>"
        if p.get("bitpos") is not None:
            pos += f"<BIT-POSITION>{p['bitpos']}</BIT-POSITION>"
        if p["kind"] == "const":
            params += (f'<PARAM {XSI} xsi:type="CODED-CONST"><SHORT-NAME>{p["name"]}</SHORT-NAME>{pos}'
                       f'<CODED-VALUE>{p["value"]}</CODED-VALUE>{_dct_xml(p["type"])}</PARAM>')
        elif p["kind"] == "value":
            d = p["dop"]
            ptype = d.get("ptype") or ("A_UNICODE2STRING" if d["dt"] in ("A_ASCIISTRING", "A_UTF8STRING")
                                       else d["dt"])
            dops.append(f'<DATA-OBJECT-PROP ID="xdop{i}"><SHORT-NAME>xdop{i}</SHORT-NAME>'
                        f'{compu_method_xml(d.get("cm", {}))}{_dct_xml(d)}'
                        f'<PHYSICAL-TYPE BASE-DATA-TYPE="{ptype}"/></DATA-OBJECT-PROP>')
            params += (f'<PARAM {XSI} xsi:type="VALUE"><SHORT-NAME>{p["name"]}</SHORT-NAME>{pos}'
                       f'<DOP-REF ID-REF="xdop{i}"/></PARAM>')
        else:
            raise ValueError(p["kind"])
    b = Builder()
    for x in dops:
        b.objs.append(DOP.from_et(ElementTree.fromstring(x), FRAGS))
    rq = RQ.from_et(ElementTree.fromstring(
        f'<REQUEST ID="xrq"><SHORT-NAME>rq</SHORT-NAME><PARAMS>{params}</PARAMS></REQUEST>'), FRAGS)
    b.objs.append(rq)
    b.resolve()
    return rq


def build_response(spec):
    b = Builder()
    rs = b.response(spec)
    b.resolve()
    return rs


# ---------------------------------------------------------------------------
# diagnostic layers (real EcuVariant objects, as tests/test_decoding.py builds them)
# ---------------------------------------------------------------------------
def build_layer(spec, base_variant=False):
    """spec: {"services": [{"name", "request": {...}|None, "pos": [..], "neg": [..]}], "gnr": [..]}"""
    from odxtools.database import Database
    from odxtools.diaglayers.diaglayertype import DiagLayerType
    from odxtools.diaglayers.ecuvariant import EcuVariant
    from odxtools.diaglayers.ecuvariantraw import EcuVariantRaw
    from odxtools.diaglayers.basevariant import BaseVariant
    from odxtools.diaglayers.basevariantraw import BaseVariantRaw
    from odxtools.diagservice import DiagService
    b = Builder()
    services, requests, pos, neg, gnrs = [], [], [], [], []
    for sv in spec["services"]:
        rq = None
        if sv.get("request") is not None:
            rq = b.request(sv["request"], name=sv["name"] + "_rq")
            requests.append(rq)
        prs = [b.response(r, name=f"{sv['name']}_pr{i}") for i, r in enumerate(sv.get("pos", []))]
        nrs = [b.response(r, name=f"{sv['name']}_nr{i}", rtype="NEG-RESPONSE")
               for i, r in enumerate(sv.get("neg", []))]
        pos += prs
        neg += nrs
        services.append(mk(DiagService, odx_id=oid(sv["name"] + "_id"), short_name=sv["name"],
                           request_ref=None if rq is None else OdxLinkRef.from_id(rq.odx_id),
                           pos_response_refs=[OdxLinkRef.from_id(r.odx_id) for r in prs],
                           neg_response_refs=[OdxLinkRef.from_id(r.odx_id) for r in nrs]))
    for i, g in enumerate(spec.get("gnr", [])):
        gnrs.append(b.response(g, name=f"gnr{i}", rtype="GLOBAL-NEG-RESPONSE"))
    common = dict(odx_id=oid("layer_id"), short_name="layer", diag_comms_raw=list(services),
                  requests=NamedItemList(requests), positive_responses=NamedItemList(pos),
                  negative_responses=NamedItemList(neg),
                  global_negative_responses=NamedItemList(gnrs))
    if base_variant:
        raw = mk(BaseVariantRaw, variant_type=DiagLayerType.BASE_VARIANT, **common)
        layer = BaseVariant(diag_layer_raw=raw)
    else:
        raw = mk(EcuVariantRaw, variant_type=DiagLayerType.ECU_VARIANT, **common)
        layer = EcuVariant(diag_layer_raw=raw)
    db = OdxLinkDatabase()
    for o in b.objs:
        db.update(o._build_odxlinks())
    db.update(layer._build_odxlinks())
    for o in b.objs:
        o._resolve_odxlinks(db)
    layer._resolve_odxlinks(db)
    layer._finalize_init(Database(), db)
    try:
        layer._resolve_snrefs(SnRefContext(database=None))
    except Exception:  # noqa: BLE001 - nothing in these layers uses short-name references
        pass
    return layer
