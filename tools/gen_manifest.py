#!/usr/bin/env python3
"""Regenerates /verif/MANIFEST.json from the table below (edit here, not the JSON)."""
import json, os
V = os.path.dirname(os.path.dirname(os.path.abspath(__file__)))
TECH = ("bounded symbolic execution of the real Python code (symx: proxy values over z3 "
        "bit-vectors / IEEE floats), each obligation decided by the SMT solver per path")
NOTE = ("Trusted: z3 5.1 (FP obligations: cvc5 1.0.3), the symx proxies and shims, "
        "models/bitstruct_model.py in place of the bitstruct C extension (validated "
        "differentially and by a concolic replay of every explored path on the unpatched "
        "library with the real bitstruct). Bounds and everything outside them are listed in "
        "the evidence file and DESIGN.md.")
CLAIMED = {
 "C03": ("§5 C03", "PDUs built by an independent reference interpreter from every representable internal value (symbolic) are decoded by the real decoder and re-encoded by the real encoder; the solver decides per path that the result equals the PDU bit for bit, for every atom of the catalogue and 25 nested descriptions; the conversion half reuses C07's exact binary64 round trip for injective compu methods."),
 "C06": ("§5 C06", "Real EcuVariant layers are built for 10 service sets (shared, nested, equal and empty prefixes, differing lengths, request echoes, NRC-CONST alternatives, global negative responses); every message of each enumerated length is symbolic (prefix-tree bytes value-forked, the rest symbolic) and the set of (service, coding object, values) reported by the real DiagLayer.decode is compared per path with an independent reference matcher; own encodings, decode_response and service_groups are checked for all parameter values."),
 "C14": ("§5 C14", "The real VariantMatcher runs on real ECU-variant layers against an uninterpreted deterministic ECU (one symbolic byte string per distinct request); per path the selected variant is compared with a spec-level evaluation (first variant with a pattern all of whose expected values equal the values in the responses) over the same symbolic responses, with and without cache; only identification requests may be issued and none twice with caching."),
 "C15": ("§5 C15", "Real protocol / functional-group / base-variant / ECU-variant layers are built and finalised through Database.refresh() for a catalogue of hierarchies (which layer defines which communication parameter for which protocol; omitted values and sub-values); the content of every definition and every default of the parameter specification is an independent symbolic 32-bit number stored as its decimal text. For every layer and protocol query the solver decides that each typed accessor returns the content of exactly the definition an independent resolution of the catalogue entry selects (closest layer per parameter and protocol, protocol-specific before generic, specification default for omitted values) - which, the contents being unconstrained, holds only if that definition was selected; the list view and get_comparam are compared by object identity."),
 "C18": ("§5 C18", "Two real EcuVariant layers are built from one service set, the second with exactly one edit, and given to the data-level API of the compare tool (Comparison.compare_diagnostic_layers / compare_databases). Numeric edits (coded value of constants behind the request prefix and in responses, explicit byte positions) are symbolic on both sides: for every pair of different old/new values the solver decides that the report names exactly the edited service, exactly the edited parameter and exactly the edited attribute, and nothing under new / deleted / renamed; a layer against an equal copy reports nothing for all values of its numbers. Structural single edits (add, delete, rename a service; bit length, data type, linked DOP, semantic, default value, NRC values; added / removed layer) and the counts of the list tool's overview have no value dimension and run as concrete witnesses of the same oracle."),
 "C17": ("§5 C17", "On every path the same encode/decode operation on the same symbolic inputs is run in strict mode, after flipping the flag at run time, and after flipping it back: strict success implies identical lenient success, lenient raises only where strict raised, and flipping back restores the strict outcome; decided by the solver for all values of the C04/C05 input spaces."),
 "C07": ("§5 C07", "The real compu-method objects (IDENTICAL, LINEAR, SCALE-LINEAR, TAB-INTP, RAT-FUNC, SCALE-RAT-FUNC, TEXTTABLE; Limit and compare_odx_values) are executed on a symbolic value (8-bit quick / 12-16-bit thorough integers, or a binary64 grid k/4) under an exact IEEE-754 binary64 model of Python float arithmetic; validity is compared with the declared limits, integer results with 'a nearest integer of the exact rational formula' in wide bit-vectors, float results with the reference formula; injective methods must round-trip. FP obligations are decided by cvc5, the rest by z3."),
 "C05": ("§5 C05", "The whole message is symbolic: every byte string of each enumerated length is decoded by the real Request.decode for every catalogue description, and by DiagLayer.decode on the shipped somersault database (lengths 0..3 quick / 0..4 thorough; the bytes that walk the prefix-tree dictionaries are value-forked by the engine, the rest stays symbolic). On every path the outcome must be a result or DecodeError, and messages shorter than the reference's minimal length must be rejected."),
 "C01": ("§5 C01", "Round trip Request.encode -> decode on the real code with every physical value symbolic (integers to 64-bit fields, byte-field contents, binary64 floats) for each enumerated description of the catalogue (~2 900 single-DOP descriptions over bit length x position x byte order x encoding x diag-coded type x bit mask x compu method, and 45 nested ones: structures, four field kinds, multiplexers, tables, DTC, environment data, length keys, SYSTEM, echoes); z3 decides per path that the decoded value equals the encoded one for ALL values, that the following parameter is still found and that the decoder consumed the whole PDU."),
 "C02": ("§5 C02", "On every success path of the real encoder the PDU is compared, as a bit-vector equality over all values, with the PDU laid out by an independent reference statement of the ODX wire format (models/odxref.py); the reference PDU is decoded back; representable values must be accepted."),
 "C04": ("§5 C04", "Values range over representable AND unrepresentable inputs (|v| <= 2^(bl+2), byte fields of every length 0..n+1, unencodable/over/under-long strings): on EVERY path the outcome must be an OdxError or a PDU that decodes back to the input; any other exception class or a silently altered value is a violation. Solver verdict per path."),
 "C08": ("§5 C08", "The real get_static_bit_length()/coded_const_prefix() answers are confronted with the symbolic encoder: on every success path 8*len(pdu) equals the static length and the constant prefix is a prefix of the PDU, for all values."),
 "C12": ("§5 C12", "Telegrams of every enumerated length (1..130 and the boundaries up to 4095; classic and FD frame sizes) are segmented by a reference ISO 15765-2 sender with symbolic payload and padding bytes; sequences per id, symbolic (value-forked) interleaving schedules of up to 3 ids with inserted flow-control/unrelated frames, and an inductive isolation step (one arbitrary frame from an arbitrary state of all ids leaves every other id's state untouched) are run through the real decode_rx_frame; equality of reported and transmitted telegrams is a solver verdict over all payload bytes. Flow-control answers of IsoTpActiveDecoder are checked per first frame; both candump text formats at witness level."),
 "C13": ("§5 C13", "All byte values of up to 3 (quick) / 4 (thorough) arbitrary CAN frames from the initial state, plus ONE arbitrary frame from an ARBITRARY state (announced length, sequence index, buffer contents symbolic): an inductive step which shows that the real decode_rx_frame keeps simulating a reference reassembler, extending the result to histories of any length within the enumerated buffer/frame lengths. Solver verdict per path, not sampling."),
}
NA = {
 "C09": "value inheritance is dictionary/set manipulation over short names with no value dimension: every symbolic fork yields a fully concrete hierarchy, so a solver would only drive an enumeration (DESIGN.md §7)",
 "C10": "reference resolution is dict-of-dict lookup keyed by id/fragment strings through ElementTree (C parser): names, not values, are quantified (DESIGN.md §7)",
 "C11": "PDX write/load crosses jinja2-compiled templates, markupsafe (C), zipfile/zlib and pyexpat; the quantifier is 'every attribute of every element', an enumeration of template lines (DESIGN.md §7)",
 "C16": "state is a list plus a dict keyed by attribute names; hasattr/iskeyword need concrete str; an arbitrary-pre-state step would need a symbolic __dict__ (DESIGN.md §7)",
}
PENDING = "claimed in DESIGN.md but the check is not built yet in this revision; nothing is asserted for it"
props = [json.loads(l)["id"] for l in open(os.path.join(V, "properties.jsonl"))]
checks = []
for pid in props:
    if pid in CLAIMED:
        ref, text = CLAIMED[pid]
        checks.append({
            "property_id": pid,
            "quick_cmd": f"./check {pid} --tier quick",
            "thorough_cmd": f"./check {pid} --tier thorough",
            "evidence_file": f"/verif/evidence/{pid}.json",
            "replay_cmd_template": f"./check {pid} --replay {{path}}",
            "engine": "symx",
            "level_claimed": {"category": "model_checking", "text": text, "design_ref": ref},
            "level_note": NOTE,
            "technique": TECH,
        })
na = []
for pid in props:
    if pid in CLAIMED:
        continue
    na.append({"property_id": pid, "reason": NA.get(pid, PENDING)})
m = {
 "version": 1,
 "setup_cmd": "./setup.sh",
 "hooks": {"guard": "ODXTOOLS_VERIF",
           "enable": "no source hooks exist: all stubs are module-global rebinding applied by the checks at analysis time; nothing to enable",
           "baseline_off_cmd": "cd /repo && /venv/bin/python -m pytest -ra -q -p no:cacheprovider --timeout=900 --continue-on-collection-errors",
           "source_commits": [], "add_only": True},
 "engines": [{"name": "symx", "path": "symx/", "serves_properties": sorted(CLAIMED),
              "kind_free_text": "symbolic execution of the real odxtools code on proxy values over z3 bit-vectors and IEEE floats; depth-first by re-execution with a decision prefix; obligations discharged by z3 (FP: cvc5) per path; known-finding regions; concolic replay of every path on the unpatched library"}],
 "checks": checks,
 "not_applicable": na,
 "notes": "Exit codes: 0 held / 1 VIOLATION (replayed on the unpatched library) / 2 harness error. Fixes made to /repo are listed in known_findings.json under 'fixed'.",
}
json.dump(m, open(os.path.join(V, "MANIFEST.json"), "w"), indent=1)
print("claimed", sorted(CLAIMED), "n/a", [x["property_id"] for x in na])
