#!/usr/bin/env python3
"""writes seeded/SUMMARY.md from the meta.json files"""
import glob, json, os
rows = []
for f in sorted(glob.glob("/verif/seeded/*/meta.json")):
    m = json.load(open(f))
    notes = open(os.path.join(os.path.dirname(f), "notes.md")).read().strip().split("\n")
    title = next((l.strip("# ").strip() for l in notes if l.strip()), "")
    ran = ", ".join(f"{r['check']}:{'VIOLATION' if r['exit']==1 else ('harness-error' if r['exit']==2 else 'pass')}" for r in m.get("ran", []))
    rows.append((m["id"], m["property"], "yes" if m.get("valid") else "no", ", ".join(m.get("detected_by", [])) or "-", ran, title[:110]))
out = ["# Seeded changes and which checks catch them", "",
       "Each change was written by a sub-agent that saw only the text of one property and a scratch",
       "worktree. `valid` = confirmed here: the patch applies to the current /repo HEAD, the 140 tests",
       "pass with it, the demonstration fails with it and passes without it. Checks were run with the",
       "patch applied to /repo (quick tier) and /repo was restored afterwards.", "",
       "| id | property | valid | detected by (exit 1) | runs | change |", "|---|---|---|---|---|---|"]
for r in rows:
    out.append("| " + " | ".join(r) + " |")
valid = [r for r in rows if r[2] == "yes"]
det = [r for r in valid if r[3] != "-"]
out += ["", f"{len(det)} of {len(valid)} valid changes are detected by at least one check."]
open("/verif/seeded/SUMMARY.md", "w").write("\n".join(out) + "\n")
print("\n".join(out[-3:]))
