#!/usr/bin/env python3
"""Evaluate one seeded defect: confirm it (tests pass, demo fails with / passes without) in a
scratch worktree, then apply it to /repo, run the given checks, and undo it.
usage: seedeval.py <seed dir with patch.diff demo.py notes.md> <id> <property> [check ...]"""
import json, os, shutil, subprocess, sys, time
src, sid, prop = sys.argv[1:4]
checks = sys.argv[4:] or [prop]
dst = f"/verif/seeded/{sid}"
os.makedirs(dst, exist_ok=True)
for f in ("patch.diff", "demo.py", "notes.md"):
    if os.path.abspath(src) != os.path.abspath(dst):
        shutil.copy(os.path.join(src, f), os.path.join(dst, f))
wt = f"/tmp/evalwt_{sid}"
def sh(cmd, **kw):
    return subprocess.run(cmd, shell=True, capture_output=True, text=True, **kw)
sh(f"git -C /repo worktree remove --force {wt}")
r = sh(f"git -C /repo worktree add -q {wt} HEAD")
env = f"cd {wt} && PYTHONPATH={wt} "
meta = {"id": sid, "property": prop, "ran": []}
try:
    # the demonstration runs from OUT/x/ inside the worktree, where its author ran it (some
    # demonstrations locate examples/ relative to their own path)
    os.makedirs(f"{wt}/OUT/x", exist_ok=True)
    shutil.copy(f"{dst}/demo.py", f"{wt}/OUT/x/demo.py")
    d0 = sh(env + f"/venv/bin/python {wt}/OUT/x/demo.py")
    ap = sh(f"git -C {wt} apply {dst}/patch.diff")
    t = sh(env + "/venv/bin/python -m pytest -q -p no:cacheprovider -x 2>&1 | tail -1")
    d1 = sh(env + f"/venv/bin/python {wt}/OUT/x/demo.py")
    meta["confirmed"] = {"demo_passes_without": d0.returncode == 0, "patch_applies": ap.returncode == 0,
                         "tests_with_change": t.stdout.strip(), "demo_fails_with": d1.returncode != 0}
finally:
    sh(f"git -C /repo worktree remove --force {wt}")
ok = meta["confirmed"]["demo_passes_without"] and meta["confirmed"]["patch_applies"] and \
    "passed" in meta["confirmed"]["tests_with_change"] and "failed" not in meta["confirmed"]["tests_with_change"] \
    and meta["confirmed"]["demo_fails_with"]
meta["valid"] = ok
scratch = os.environ.get("SEEDEVAL_SCRATCH") == "1"
if ok:
    if scratch:
        # preliminary evaluation in a scratch worktree (the checks analyse it through VERIF_REPO)
        # while /repo is busy; the recorded evaluation applies the patch to /repo itself
        wt2 = f"/tmp/evalwt2_{sid}"
        sh(f"git -C /repo worktree remove --force {wt2}")
        sh(f"git -C /repo worktree add -q {wt2} HEAD")
        sh(f"git -C {wt2} apply {dst}/patch.diff")
        prefix = f"VERIF_REPO={wt2} "
    else:
        assert sh("git -C /repo status --short").stdout.strip() == "", "repo dirty"
        sh(f"git -C /repo apply {dst}/patch.diff")
        prefix = ""
    meta["applied_to"] = "scratch worktree (VERIF_REPO)" if scratch else "/repo"
    try:
        for c in checks:
            t0 = time.time()
            r = sh(f"cd /verif && {prefix}./check {c} --no-evidence")
            lines = [l for l in r.stdout.split("\n") if l.startswith(("VIOLATION", "HARNESS-ERROR", "  counterexample"))]
            meta["ran"].append({"check": c, "exit": r.returncode, "violations": sum(l.startswith("VIOLATION") for l in lines),
                                "first": lines[:3], "wall_s": round(time.time() - t0, 1),
                                "summary": r.stdout.strip().split("\n")[-1][:300]})
    finally:
        if scratch:
            sh(f"git -C /repo worktree remove --force {wt2}")
        else:
            sh("git -C /repo checkout -- .")
    meta["detected_by"] = [x["check"] for x in meta["ran"] if x["exit"] == 1]
    meta["harness_error_only"] = [x["check"] for x in meta["ran"] if x["exit"] == 2]
notes = open(os.path.join(dst, "notes.md")).read()
meta["needs"] = notes[:1500]
json.dump(meta, open(os.path.join(dst, "meta.json"), "w"), indent=1)
print(sid, "valid" if ok else "INVALID", "detected_by", meta.get("detected_by"), "harness_error", meta.get("harness_error_only"))
