"""C15 - communication parameters resolve to the most specific definition.

The hierarchy (which layer defines which parameter for which protocol) is enumerated by a
catalogue; the CONTENT of every definition and of every default of the parameter specification
is a symbolic number, rendered as the decimal text ODX stores.  Because the contents are
unconstrained and pairwise independent, "the accessor returns the content of definition X for
every assignment of contents" holds only if definition X is the one that was selected - that is
how the override order becomes a solver obligation.  The list view (comparam_refs) is compared
by object identity against an independent resolution of the catalogue entry.
"""
import warnings
from fractions import Fraction

from symx import core, explore
from symx.core import s_and, s_or, s_not

# parameter specifications: simple ones (with default) and one complex one
SIMPLE = ["CP_Baudrate", "CP_CANFDBaudrate", "CP_CanFuncReqId", "CP_DoIPLogicalGatewayAddress",
          "CP_DoIPLogicalTesterAddress", "CP_DoIPLogicalFunctionalAddress",
          "CP_DoIPRoutingActivationTimeout", "CP_DoIPRoutingActivationType", "CP_TesterPresentTime"]
SUBS = ["CP_CanPhysReqFormat", "CP_CanPhysReqId", "CP_CanPhysReqExtAddr", "CP_CanRespUSDTId",
        "CP_DoIPLogicalEcuAddress"]
TABLE = "CP_UniqueRespIdTable"
FDLEN = "CP_CANFDTxMaxDataLength"

# typed accessors: method, parameter, sub-parameter, unit
ACCESSORS = [
    ("get_can_baudrate", "CP_Baudrate", None, "int"),
    ("get_can_func_req_id", "CP_CanFuncReqId", None, "int"),
    ("get_doip_logical_gateway_address", "CP_DoIPLogicalGatewayAddress", None, "int"),
    ("get_doip_logical_tester_address", "CP_DoIPLogicalTesterAddress", None, "int"),
    ("get_doip_logical_functional_address", "CP_DoIPLogicalFunctionalAddress", None, "int"),
    ("get_doip_routing_activation_timeout", "CP_DoIPRoutingActivationTimeout", None, "us"),
    ("get_doip_routing_activation_type", "CP_DoIPRoutingActivationType", None, "int"),
    ("get_tester_present_time", "CP_TesterPresentTime", None, "us"),
    ("get_can_receive_id", TABLE, "CP_CanPhysReqId", "int"),
    ("get_can_send_id", TABLE, "CP_CanRespUSDTId", "int"),
    ("get_doip_logical_ecu_address", TABLE, "CP_DoIPLogicalEcuAddress", "int"),
]


def D(cp, protocol=None, omit=(), fd=None, spec=None, xml=False):
    """one definition (COMPARAM-REF) of parameter cp; omit: True (simple value left out) or the
    names of sub-values left out; fd: concrete text of a CP_CANFDTxMaxDataLength definition;
    spec: id of the parameter specification if it is not the default one of that name (two
    specifications may share a short name); xml: the definition is read from its ODX text by
    ComparamInstance.from_et (concrete numbers)"""
    return {"cp": cp, "protocol": protocol, "omit": omit, "fd": fd, "spec": spec, "xml": xml}


XML_TABLE = "xmlspec." + TABLE   # a specification read from ODX text, a nested complex parameter first
XSUBS = ["CP_CanPhysReqId", "CP_CanRespUSDTId", "CP_DoIPLogicalEcuAddress"]
DOIP_TABLE = "doip." + TABLE  # a second specification with the short name CP_UniqueRespIdTable


def L(name, typ, parents, *defs):
    return {"name": name, "type": typ, "parents": list(parents), "defs": list(defs)}


ALLS = [D(n) for n in SIMPLE] + [D(TABLE)]
HIERARCHIES = {
    # everything defined once, in the protocol; queried from every level
    "chain-protocol-defines": [L("P1", "protocol", [], *ALLS), L("BV", "base-variant", ["P1"]),
                               L("EV", "ecu-variant", ["BV"])],
    # closer layers override: protocol < base variant < ECU variant
    "chain-override": [L("P1", "protocol", [], *ALLS),
                       L("BV", "base-variant", ["P1"], D("CP_Baudrate"), D("CP_TesterPresentTime"), D(TABLE)),
                       L("EV", "ecu-variant", ["BV"], D("CP_Baudrate"), D("CP_CanFuncReqId"))],
    # functional group between protocol and base variant
    "functional-group": [L("P1", "protocol", [], D("CP_Baudrate"), D("CP_TesterPresentTime"), D(TABLE)),
                         L("FG", "functional-group", ["P1"], D("CP_TesterPresentTime"), D("CP_CanFuncReqId")),
                         L("BV", "base-variant", ["FG"], D("CP_CanFuncReqId")),
                         L("EV", "ecu-variant", ["BV"])],
    # omitted values and sub-values: defaults of the specification
    "defaults": [L("P1", "protocol", [], *[D(n, omit=True) for n in SIMPLE],
                   D(TABLE, omit=("CP_CanPhysReqId", "CP_DoIPLogicalEcuAddress"))),
                 L("BV", "base-variant", ["P1"], D("CP_Baudrate"), D(TABLE, omit=("CP_CanRespUSDTId",))),
                 L("EV", "ecu-variant", ["BV"], D("CP_Baudrate", omit=True))],
    # two protocols; protocol-qualified definitions next to generic ones
    "two-protocols": [L("P1", "protocol", [], D("CP_Baudrate", "P1"), D("CP_TesterPresentTime", "P1"), D(TABLE, "P1")),
                      L("P2", "protocol", [], D("CP_Baudrate", "P2"), D("CP_TesterPresentTime", "P2"), D(TABLE, "P2")),
                      L("BV", "base-variant", ["P1", "P2"], D("CP_CanFuncReqId"), D("CP_Baudrate", "P2")),
                      L("EV", "ecu-variant", ["BV"], D("CP_TesterPresentTime", "P1"))],
    # a generic definition high up, a protocol-specific one closer - and the other way round
    "generic-then-specific": [L("P1", "protocol", [], D("CP_Baudrate"), D(TABLE), D("CP_TesterPresentTime", "P1")),
                              L("P2", "protocol", []),
                              L("BV", "base-variant", ["P1", "P2"], D("CP_Baudrate", "P1"), D(TABLE, "P2"),
                                D("CP_TesterPresentTime")),
                              L("EV", "ecu-variant", ["BV"], D("CP_CanFuncReqId", "P2"), D("CP_CanFuncReqId"))],
    # the specific definition overridden by a closer specific one, the generic one stays
    "specific-overrides-specific": [L("P1", "protocol", [], D("CP_Baudrate", "P1"), D("CP_Baudrate")),
                                    L("BV", "base-variant", ["P1"], D("CP_Baudrate", "P1")),
                                    L("EV", "ecu-variant", ["BV"], D("CP_Baudrate"))],
    # two direct parents of different layer types define the same parameter: the more specific
    # type (protocol < functional group < base variant) is the closer one, whatever the order of
    # the references
    "two-parent-types": [L("P1", "protocol", [], D("CP_Baudrate"), D(TABLE), D("CP_TesterPresentTime")),
                         L("FG", "functional-group", ["P1"], D("CP_Baudrate"), D("CP_CanFuncReqId")),
                         L("BV", "base-variant", ["FG", "P1"], D("CP_TesterPresentTime")),
                         L("EV", "ecu-variant", ["P1", "BV"], D("CP_CanFuncReqId"))],
    "two-parent-types-reordered": [L("P1", "protocol", [], D("CP_Baudrate"), D(TABLE)),
                                   L("FG", "functional-group", ["P1"], D("CP_Baudrate"), D(TABLE)),
                                   L("BV", "base-variant", ["P1", "FG"]),
                                   L("EV", "ecu-variant", ["BV", "FG"], D("CP_CanFuncReqId"))],
    # two specifications with the same short name (the ISO-TP and the DoIP response id table):
    # definitions override each other per SPECIFICATION and protocol, not per short name
    "same-name-two-specs": [L("P1", "protocol", [], D(TABLE), D("CP_Baudrate")),
                            L("BV", "base-variant", ["P1"], D(TABLE, spec=DOIP_TABLE)),
                            L("EV", "ecu-variant", ["BV"], D(TABLE, spec=DOIP_TABLE), D("CP_Baudrate"))],
    # a protocol that derives from another protocol
    "protocol-derives-protocol": [L("P0", "protocol", [], D("CP_Baudrate"), D(TABLE), D("CP_TesterPresentTime")),
                                  L("P1", "protocol", ["P0"], D("CP_TesterPresentTime")),
                                  L("BV", "base-variant", ["P1"], D("CP_CanFuncReqId")),
                                  L("EV", "ecu-variant", ["BV"])],
    # protocol names one of which contains the other
    "protocol-name-contains": [L("uds", "protocol", [], D("CP_Baudrate", "uds"), D(TABLE, "uds")),
                               L("uds_fd", "protocol", [], D("CP_TesterPresentTime", "uds_fd")),
                               L("BV", "base-variant", ["uds", "uds_fd"], D("CP_CanFuncReqId", "uds"),
                                 D("CP_CanFuncReqId"), D("CP_TesterPresentTime")),
                               L("EV", "ecu-variant", ["BV"], D("CP_Baudrate"))],
    # the parameter specification itself is read from ODX text; its first sub-parameter is a nested
    # complex parameter
    "spec-and-value-from-xml": [L("P1", "protocol", [], D(TABLE, spec=XML_TABLE, xml=True)),
                                L("EV", "ecu-variant", ["P1"], D("CP_Baudrate"))],
    "spec-from-xml": [L("P1", "protocol", [], D(TABLE, spec=XML_TABLE), D("CP_Baudrate")),
                      L("EV", "ecu-variant", ["P1"], D(TABLE, spec=XML_TABLE, omit=("CP_CanRespUSDTId",)))],
    # definitions read from ODX text, sub-values left out in the middle of the complex value
    "from-xml": [L("P1", "protocol", [], D(TABLE, xml=True, omit=("CP_CanPhysReqFormat", "CP_CanPhysReqExtAddr", "CP_CanRespUSDTId")),
                   D("CP_Baudrate", xml=True)),
                 L("EV", "ecu-variant", ["P1"], D("CP_TesterPresentTime", xml=True),
                   D("CP_Baudrate", "P1", xml=True), D("CP_CanFuncReqId", "P1", xml=True),
                   D("CP_CanFuncReqId", xml=True))],
    # CAN-FD parameters (concrete texts) next to the symbolic ones
    "can-fd": [L("P1", "protocol", [], D("CP_Baudrate"), D("CP_CANFDBaudrate"), D(TABLE),
                 D(FDLEN, fd="TX_DL=8")),
               L("BV", "base-variant", ["P1"], D(FDLEN, fd="CANFD, TX_DL = 64")),
               L("EV", "ecu-variant", ["BV"], D("CP_CANFDBaudrate"))],
    "can-fd-12": [L("P1", "protocol", [], D("CP_CANFDBaudrate"), D(TABLE), D(FDLEN, fd="CANFD,TX_DL=12")),
                  L("EV", "ecu-variant", ["P1"])],
    **{f"can-fd-dl{n}": [L("P1", "protocol", [], D("CP_CANFDBaudrate"), D(TABLE), D(FDLEN, fd=f"CANFD, TX_DL={n}")),
                         L("EV", "ecu-variant", ["P1"])] for n in (8, 16, 20, 24, 32, 48, 64, 100)},
    # every parameter defined for each of two protocols (different contents): an accessor that is
    # asked for a protocol must return that protocol's definition, whichever comes first
    "all-for-two-protocols": [
        L("P1", "protocol", [], *[D(n, "P1") for n in SIMPLE], D(TABLE, "P1")),
        L("P2", "protocol", [], *[D(n, "P2") for n in SIMPLE], D(TABLE, "P2")),
        L("BV", "base-variant", ["P1", "P2"]), L("EV", "ecu-variant", ["BV"])],
    "all-for-two-protocols-in-variant": [
        L("P1", "protocol", []), L("P2", "protocol", []),
        L("BV", "base-variant", ["P1", "P2"],
          *[D(n, q) for n in SIMPLE for q in ("P2", "P1")], D(TABLE, "P2"), D(TABLE, "P1")),
        L("EV", "ecu-variant", ["BV"])],
    "no-can": [L("P1", "protocol", [], D("CP_DoIPLogicalGatewayAddress"), D("CP_TesterPresentTime")),
               L("EV", "ecu-variant", ["P1"])],
}


def placements(cp):
    """every placement of parameter cp along the chain P1 -> FG -> BV -> EV (plus a second protocol
    P2 above BV): per layer absent / generic / qualified for P1 / both; omitted value on one of them"""
    import itertools
    out = {}
    opts = ("-", "g", "s", "gs", "o")  # o: generic definition with omitted value
    for combo in itertools.product(opts, repeat=4):
        if all(c == "-" for c in combo):
            continue
        layers = []
        for (name, typ, parents), c in zip((("P1", "protocol", []), ("FG", "functional-group", ["P1"]),
                                            ("BV", "base-variant", ["FG", "P2"]),
                                            ("EV", "ecu-variant", ["BV"])), combo):
            defs = []
            if "g" in c:
                defs.append(D(cp))
            if "s" in c:
                defs.append(D(cp, "P1"))
            if c == "o":
                defs.append(D(cp, omit=(True if cp != TABLE else ("CP_CanPhysReqId", "CP_CanRespUSDTId"))))
            layers.append(L(name, typ, parents, *defs))
        layers.insert(1, L("P2", "protocol", []))
        out[f"place-{cp}-" + "".join(f"[{c}]" for c in combo)] = layers
    return out


GENERATED = {}
QUICK_PARAMS = ("CP_Baudrate", TABLE, "CP_TesterPresentTime")
for _cp in SIMPLE + [TABLE]:
    GENERATED.update(placements(_cp))


def hierarchy(name):
    return HIERARCHIES[name] if name in HIERARCHIES else GENERATED[name]


# ---------------------------------------------------------------------------
# independent resolution of a catalogue entry
# ---------------------------------------------------------------------------
def _tag(layer, i):
    return f"{layer['name']}#{i}"


def ref_available(hier, name):
    """{(parameter, protocol): tag} visible in layer `name`: parents first, closer layers override
    per parameter and protocol"""
    layer = [x for x in hier if x["name"] == name][0]
    out = {}
    rank = {"protocol": 1, "functional-group": 2, "base-variant": 3, "ecu-variant": 4}
    typ = {x["name"]: x["type"] for x in hier}
    for p in sorted(layer["parents"], key=lambda n: rank[typ[n]]):  # most specific parent last
        for k, v in ref_available(hier, p).items():
            out[k] = v
    for i, d in enumerate(layer["defs"]):
        out[(d["spec"] or d["cp"], d["protocol"])] = _tag(layer, i)
    return out


def ref_lookup(hier, name, cp, protocol):
    """tag of the definition a look-up by parameter name and protocol must return; the string
    'any' if the statement leaves it open (no protocol given, several definitions); None if absent"""
    av = ref_available(hier, name)
    short = lambda c: c.split(".")[-1]  # noqa: E731  specification id -> short name
    cands = [(c, pr, t) for (c, pr), t in av.items() if short(c) == cp]
    if protocol is not None:
        spec_c = [t for c, pr, t in cands if pr == protocol]
        gen_c = [t for c, pr, t in cands if pr is None]
        pick = spec_c or gen_c
        if not pick:
            return None
        return pick[0] if len(pick) == 1 else "any"
    if not cands:
        return None
    return cands[0][2] if len(cands) == 1 else "any"


def _def_of(hier, tag):
    lname, i = tag.split("#")
    return [x for x in hier if x["name"] == lname][0]["defs"][int(i)]


# ---------------------------------------------------------------------------
def build_none(cfg):
    import odxtools.isotp_state_machine  # noqa
    import odxtools.database  # noqa
    import odxtools.diaglayers.hierarchyelement  # noqa
    return {}


_PAD = [0]


def _text(sx, n):
    """the decimal text of a content; cfg["pad"] leading zeros ("0057": ODX ids and addresses are
    often written zero-padded) - the number a reader gets from it is the same"""
    from symx import strings
    return strings.SymText("dec", n, pad=_PAD[0]) if sx.sym else "0" * _PAD[0] + str(n)


def run_resolve(sx, cfg, env):
    from catalogue import hier as H
    hier = hierarchy(cfg["hier"])
    _PAD[0] = cfg.get("pad", 0)
    # symbolic contents: one number per definition (and per sub-value), one per default
    defaults = {n: sx.int(f"default.{n}", 0, (1 << 32) - 1) for n in SIMPLE}
    subdefaults = {n: sx.int(f"default.{TABLE}.{n}", 0, (1 << 32) - 1) for n in SUBS}
    content = {}
    layers = []
    for layer in hier:
        cps = []
        for i, d in enumerate(layer["defs"]):
            tag = _tag(layer, i)
            if d["fd"] is not None:
                value = d["fd"]
            elif d["cp"] == TABLE:
                value = [["7"]] if d["spec"] == XML_TABLE else []
                for sn in (XSUBS if d["spec"] == XML_TABLE else SUBS):
                    if sn in d["omit"]:
                        value.append(None)
                    else:
                        content[(tag, sn)] = sx.int(f"{tag}.{sn}", 0, (1 << 32) - 1)
                        value.append(_text(sx, content[(tag, sn)]))
            elif d["omit"]:
                value = ""
            else:
                content[(tag, None)] = sx.int(tag, 0, (1 << 32) - 1)
                value = _text(sx, content[(tag, None)])
            entry = {"cp": d["cp"], "value": value, "protocol": d["protocol"], "tag": tag}
            if d["spec"]:
                entry["spec_id"] = d["spec"]
            if d["xml"]:
                # the definition as ODX text with concrete numbers, read by ComparamInstance.from_et
                base = 1000 * (len(content) + 1)
                if d["cp"] == TABLE:
                    # (the specification read from text starts with a nested complex parameter:
                    # its value is a nested COMPLEX-VALUE with two entries)
                    parts = ["<COMPLEX-VALUE><SIMPLE-VALUE>7</SIMPLE-VALUE><SIMPLE-VALUE>8</SIMPLE-VALUE>"
                             "</COMPLEX-VALUE>"] if d["spec"] == XML_TABLE else []
                    for j, sn in enumerate(XSUBS if d["spec"] == XML_TABLE else SUBS):
                        if sn in d["omit"]:
                            parts.append("<SIMPLE-VALUE/>")
                        else:
                            content[(tag, sn)] = base + j
                            parts.append(f"<SIMPLE-VALUE>{base + j}</SIMPLE-VALUE>")
                    body = "<COMPLEX-VALUE>" + "".join(parts) + "</COMPLEX-VALUE>"
                else:
                    content[(tag, None)] = base
                    body = f"<SIMPLE-VALUE>{base}</SIMPLE-VALUE>"
                # (a protocol-qualified definition names its protocol stack as well)
                pr = (f'<PROT-STACK-SNREF SHORT-NAME="stack"/><PROTOCOL-SNREF SHORT-NAME="{d["protocol"]}"/>'
                      if d["protocol"] else "")
                entry["xml"] = (f'<COMPARAM-REF ID-REF="{entry.get("spec_id", "cps." + d["cp"])}">'
                                f'{body}{pr}</COMPARAM-REF>')
            cps.append(entry)
        ls = {"name": layer["name"], "type": layer["type"], "parents": layer["parents"],
              "comparams": cps}
        if cfg.get("edited"):
            # before the edit: the same definitions with other (concrete) contents, the last one of
            # each layer not yet present
            ls["first_comparams"] = [
                dict(c, value=(["1"] * len(c["value"]) if isinstance(c["value"], list) else "1"))
                for c in cps[:-1] if not c.get("xml") and c["value"] != "" and
                not (isinstance(c["value"], str) and "TX_DL" in c["value"])]
        layers.append(ls)
    specs = [{"name": n, "default": _text(sx, defaults[n])} for n in SIMPLE] + \
        [{"name": FDLEN, "default": "TX_DL=8"},
         {"name": TABLE, "sub": [(n, _text(sx, subdefaults[n])) for n in SUBS]},
         {"name": TABLE, "id": DOIP_TABLE, "subset": "doip",
          "sub": [(n, _text(sx, subdefaults[n])) for n in SUBS]},
         {"name": TABLE, "id": XML_TABLE, "subset": "xmlspec", "from_xml": True,
          "sub": [("CP_Nested", [("CP_Inner", "1"), ("CP_Inner2", "2")])] +
                 [(n, 90000 + j) for j, n in enumerate(XSUBS)]}]
    with warnings.catch_warnings():
        warnings.simplefilter("ignore")
        h = H.build_hierarchy({"specs": specs, "layers": layers, "edited": cfg.get("edited", False)})
        layer = h["layers"][cfg["layer"]]
        inst = h["instances"]
        proto = cfg["protocol"]

        # (1) the list view: exactly the definitions the override rule leaves visible
        want = ref_available(hier, cfg["layer"])
        got = list(layer.comparam_refs)
        for (cp, pr), tag in want.items():
            sx.require(any(g is inst[tag] for g in got), "visible-definition-is-listed")
        for g in got:
            sx.require(any(g is inst[t] for t in want.values()), "listed-definition-is-visible")
        sx.require(len(got) == len(want), "one-definition-per-parameter-and-protocol")

        # (2) look-up by name and protocol
        for cp in SIMPLE + [TABLE, FDLEN]:
            t = ref_lookup(hier, cfg["layer"], cp, proto)
            g = layer.get_comparam(cp, protocol=proto)
            if t is None:
                sx.require(g is None, "absent-parameter-is-not-found")
            elif t == "any":
                sx.require(g is not None and any(g is inst[x] for x in want.values()),
                           "lookup-returns-a-visible-definition")
            else:
                sx.require(g is inst[t], "lookup-prefers-the-protocol-specific-definition")
            if proto is not None:
                # the protocol may be given as the Protocol object as well as by name
                g2 = layer.get_comparam(cp, protocol=h["layers"][proto])
                sx.require(g2 is g, "lookup-by-protocol-object-equals-lookup-by-name")

        # (3) typed accessors: exactly the numeric content of the selected definition
        def expected(cp, sub):
            t = ref_lookup(hier, cfg["layer"], cp, proto)
            if t is None or t == "any":
                return t
            d = _def_of(hier, t)
            if sub is None:
                return defaults[cp] if d["omit"] else content[(t, None)]
            if d["spec"] == XML_TABLE:
                if sub not in XSUBS:
                    return None if False else "any"  # not a sub-parameter of this specification
                return 90000 + XSUBS.index(sub) if sub in d["omit"] else content[(t, sub)]
            return subdefaults[sub] if sub in d["omit"] else content[(t, sub)]

        for meth, cp, sub, unit in ACCESSORS:
            e = expected(cp, sub)
            if isinstance(e, str):
                continue
            try:
                r = getattr(layer, meth)(protocol=proto) if proto is not None else getattr(layer, meth)()
            except Exception as ex:  # noqa: BLE001
                sx.observe("exception", f"{meth}:{type(ex).__name__}")
                sx.fail(f"{meth}:returns-a-value")
                continue
            if e is None:
                sx.require(r is None, f"{meth}:absent-parameter-gives-none")
                continue
            sx.cover("accessor")
            if unit == "int":
                sx.require(r == e, f"{meth}:numeric-content")
            else:
                # microseconds -> seconds: the binary64 quotient, or any value within 2^-50 of it
                ef = core.tofloat(e) if sx.sym else float(e)
                q = ef / 1e6
                if sx.sym and isinstance(r, core.SymFloat) and isinstance(q, core.SymFloat) and \
                        r.e.eq(q.e):
                    # the very same term (the binary64 quotient of the content by 1e6): equal by
                    # reflexivity, no floating-point query needed
                    sx.require(True, f"{meth}:microseconds-to-seconds")
                else:
                    tol = q * (2.0 ** -50)
                    sx.require(s_and(r >= q - tol, r <= q + tol), f"{meth}:microseconds-to-seconds")

        # (4) CAN-FD texts (concrete)
        t = ref_lookup(hier, cfg["layer"], FDLEN, proto)
        rx = expected(TABLE, "CP_CanPhysReqId")
        if t != "any" and not isinstance(rx, str):
            size = layer.get_max_can_payload_size(proto)
            if t is None:
                sx.require(size == (8 if rx is not None else None), "payload-size-without-fd-parameter")
            else:
                import re
                txt = _def_of(hier, t)["fd"]
                n = int(re.search(r"TX_DL *= *([0-9]+)", txt).group(1))
                sx.require(size == n, "payload-size-is-the-tx-dl-content")
                fd = layer.uses_can_fd(proto)
                sx.require(fd == (rx is not None and "CANFD" in txt), "can-fd-iff-declared")
                e = expected("CP_CANFDBaudrate", None)
                if not isinstance(e, str):
                    r = layer.get_can_fd_baudrate(proto)
                    if fd and e is not None:
                        sx.require(r == e, "get_can_fd_baudrate:numeric-content")
                    else:
                        sx.require(r is None, "get_can_fd_baudrate:none-without-can-fd")


LIM = {"quick": explore.Limits(max_paths=200, wall_s=120), "thorough": explore.Limits(max_paths=2000, wall_s=600)}
HARNESSES = {"resolve": {"build": build_none, "run": run_resolve, "width": 64, "limits": LIM,
                         "must_cover": ["accessor"]}}
STUBS = ["int/float/str shims: int()/float() of the decimal text of a symbolic number yield that number",
         "no bitstruct involved"]


def configs(tier, seed):
    import random
    out = []
    gen = sorted(GENERATED)
    if tier == "quick":
        gen = [g for g in gen if any(g.startswith(f"place-{q}-") for q in QUICK_PARAMS)]
    for name in gen:
        for layer in ("BV", "EV"):
            for pr in (None, "P1", "P2"):
                out.append({"id": f"resolve/{name}/{layer}/{pr or 'any'}", "harness": "resolve",
                            "hier": name, "layer": layer, "protocol": pr, "build": {}})
    for name, hier in HIERARCHIES.items():
        protos = [None] + [x["name"] for x in hier if x["type"] == "protocol"]
        for layer in hier:
            for pr in protos:
                out.append({"id": f"resolve/{name}/{layer['name']}/{pr or 'any'}", "harness": "resolve",
                            "hier": name, "layer": layer["name"], "protocol": pr, "build": {}})
                out.append({"id": f"resolve/{name}/{layer['name']}/{pr or 'any'}/edited-and-refreshed",
                            "harness": "resolve", "hier": name, "layer": layer["name"],
                            "protocol": pr, "edited": True, "build": {}})
                out.append({"id": f"resolve/{name}/{layer['name']}/{pr or 'any'}/zero-padded",
                            "harness": "resolve", "hier": name, "layer": layer["name"],
                            "protocol": pr, "pad": 2, "build": {}})
    return out


BOUNDS = {"quick": f"all placements of three parameters (see thorough) + {len(HIERARCHIES)} hand-written hierarchies (1-2 protocols, functional group, base and ECU variant; generic "
                   "and protocol-qualified definitions; omitted values and sub-values), every layer x every "
                   "protocol query; every content and every default an arbitrary 32-bit number",
          "thorough": "ALL placements of a parameter along the chain protocol -> functional group -> base "
                      "variant -> ECU variant with a second protocol: per layer absent / generic / "
                      "protocol-qualified / both / generic with omitted value (624 hierarchies per parameter; "
                      "quick: for one simple, one complex and one time parameter; thorough: for all ten), "
                      "queried from the base and the ECU variant for no protocol and each protocol"}
ASSUMPTIONS = [
    "contents are non-negative decimal numerals below 2^32 (what ODX stores for ids, rates, addresses, times), "
    "canonical or (hand-written hierarchies) with two leading zeros",
    "of two direct parents the one of the more specific layer type (protocol < functional group < base "
    "variant) is the closer one; the same parameter and protocol in two parents of the SAME type is outside "
    "the catalogue",
    "a look-up without protocol that finds several definitions may return any of them (the statement "
    "speaks about look-ups by name AND protocol)",
    "CP_CANFDTxMaxDataLength texts are concrete (regular expression on the text)",
    "seconds = microseconds / 1e6 within 2^-50 relative",
]
