"""Shared harness for C01 / C02 / C04 / C08 over catalogue 'atoms': one DOP (or coded constant)
at one position inside a request  [SID=0x22 @0][val @bytepos.bitpos][tail=0xA5].

The same exploration serves several properties; cfg["prop"] selects which obligations are
required, so each property's check is decided (and reported) on its own.
"""
import itertools
import random

from symx import core, explore
from symx.core import s_and, s_or, s_not, s_implies
from models import odxref
from catalogue import build

INT_TYPES = ("A_INT32", "A_UINT32")


def atom_id(a):
    parts = [a["dt"], a.get("enc") or "-", a.get("dct", "std")]
    if "bl" in a:
        parts.append(f"bl{a['bl']}")
    parts.append(f"bp{a.get('bitpos') or 0}")
    parts.append(f"by{a.get('bytepos')}")
    parts.append("hl" if a.get("hl") in (None, True) else "lh")
    if a.get("mask") is not None:
        parts.append(f"m{a['mask']:x}" + ("-cond" if a.get("condensed") else ""))
    if a.get("tail") is False:
        parts.append("notail")
    if a.get("cmname"):
        parts.append("cm-" + a["cmname"])
    for k in ("min", "max", "term", "vlen", "sidx", "slen"):
        if a.get(k) is not None:
            parts.append(f"{k}{a[k]}")
    return "/".join(parts)


def request_spec(a):
    d = {k: a[k] for k in ("dt", "enc", "bl", "hl", "dct", "mask", "condensed", "min", "max",
                           "term", "cm", "ptype") if k in a}
    params = [
        {"kind": "const", "name": "sid", "bytepos": 0,
         "type": {"dt": "A_UINT32", "bl": 8}, "value": 0x22},
        {"kind": "value", "name": "val", "bytepos": a.get("bytepos"), "bitpos": a.get("bitpos"),
         "dop": d},
    ]
    if a.get("tail", True):
        params.append({"kind": "const", "name": "tail", "type": {"dt": "A_UINT32", "bl": 8},
                       "value": 0xA5})
    return {"params": params}


def build_atom(cfg):
    import odxtools.request  # noqa (make sure the modules under analysis are imported)
    import odxtools.isotp_state_machine  # noqa
    fn = build.build_request_xml if cfg.get("via_xml") else build.build_request
    return {"rq": fn(request_spec(cfg))}


STRING_CATALOGUE = ["", "A", "abc", "\x00", "é", "€", "ÿ", "𝄞", "a\x00b", "Ā", "abcdefgh",
                    "퟿", "\x7f\x80"]
# strings whose UTF-16 code units contain / straddle the two-byte termination sequences
STRING_CATALOGUE += ["\u0100\x00A", "A\x00", "\uffff\u00ff\uffff", "A\uff00\u00ffB"]


def the_value(sx, a):
    """the physical value to encode: symbolic where the type has a value dimension"""
    dtp = a["dt"]
    if dtp in INT_TYPES:
        bl = a["bl"] if a.get("dct", "std") == "std" else 32
        lim = 1 << (min(bl, 64) + 2)
        return sx.int("v", -lim, lim)
    if dtp == "A_BYTEFIELD":
        return sx.bytes("v", a["vlen"])
    if dtp in ("A_FLOAT32", "A_FLOAT64"):
        return sx.float64("v", allow_nan=False)
    if a.get("slen") is not None:
        # a symbolic string: "the text whose encoding under the description's codec is these
        # (symbolic) bytes", for every byte string that is valid under the codec
        from symx import strings
        codec = odxref.codec_of(dtp, a.get("enc"), a.get("hl") in (None, True))
        raw = sx.bytes("v", a["slen"])
        if sx.sym:
            if not a["slen"]:
                return ""
            sx.assume(core.mkbool(strings.valid_term(list(raw.items), strings._norm(codec))))
            return strings.SymStr(list(raw.items), strings._norm(codec))
        try:
            return bytes(raw).decode(codec)
        except UnicodeDecodeError:
            from symx.explore import AssumptionFailed
            raise AssumptionFailed("not a valid string")
    return STRING_CATALOGUE[a["sidx"]]


def value_bits(a):
    """number of bits the value field occupies on the wire (atoms with static length)"""
    if a.get("mask") is not None and a.get("condensed"):
        return None
    return a.get("bl")


def ref_pdu(a, v):
    """reference PDU for an accepted value, or raises odxref.Reject; only for kinds the
    reference covers (returns None otherwise)"""
    dtp, enc, hl = a["dt"], a.get("enc"), a.get("hl") in (None, True)
    dct = a.get("dct", "std")
    p = odxref.Pdu()
    p.put(0, 0x22, 0xFF)
    pos = 1 if a.get("bytepos") is None else a["bytepos"]
    bitpos = a.get("bitpos") or 0
    if dct == "std" and a.get("mask") is None:
        bl = a["bl"]
        if dtp in INT_TYPES:
            raw = odxref.int_raw(dtp, enc, bl, v)
            n = p.put_field(pos, bitpos, bl, raw, hl)
        elif dtp == "A_BYTEFIELD":
            if len(v) * 8 != bl:
                return None  # what a short byte field means is not specified: C04 owns it
            if bitpos:
                return None
            n = p.put_bytes(pos, v)
        elif dtp in odxref.STRINGS:
            codec = odxref.codec_of(dtp, enc, hl)
            try:
                raw = v.encode(codec)
            except UnicodeEncodeError:
                raise odxref.Reject("unencodable")
            if len(raw) * 8 != bl or bitpos:
                return None
            n = p.put_bytes(pos, raw)
        else:
            return None
    elif dct in ("minmax", "leading"):
        if dtp == "A_BYTEFIELD":
            raw = v
        elif dtp in odxref.STRINGS:
            codec = odxref.codec_of(dtp, enc, hl)
            try:
                raw = v.encode(codec)
            except UnicodeEncodeError:
                raise odxref.Reject("unencodable")
        else:
            return None
        if dct == "minmax":
            if bitpos:
                return None
            if len(raw) < a["min"] or (a.get("max") is not None and len(raw) > a["max"]):
                raise odxref.Reject("length outside MIN-LENGTH..MAX-LENGTH")
            two = dtp == "A_UNICODE2STRING"
            term = {"ZERO": [0, 0] if two else [0], "HEX-FF": [0xFF, 0xFF] if two else [0xFF],
                    "END-OF-PDU": []}[a["term"]]
            # a value must not contain the (aligned) termination sequence after MIN-LENGTH: the
            # reader would stop there
            tl = len(term)
            if tl:
                hits = [core.frozen(raw[o:o + tl]) == bytes(term)
                        for o in range(0, len(raw) - tl + 1) if o >= a["min"] and o % tl == 0]
                if hits and s_or(*hits):
                    raise odxref.Reject("value contains the termination sequence")
            n = p.put_bytes(pos, raw)
            at_end = not a.get("tail", True)
            if a["term"] == "END-OF-PDU" and not at_end:
                return None  # END-OF-PDU termination away from the end is not a legal description
            if not at_end and len(raw) != a.get("max"):
                n += p.put_bytes(pos + n, term)
        else:
            lbl = a["bl"]
            if len(raw) >= (1 << lbl):
                raise odxref.Reject("length does not fit the length field")
            n = p.put_field(pos, bitpos, lbl, len(raw), hl)
            n += p.put_bytes(pos + n, raw)
    elif dct == "std" and a.get("mask") is not None and not a.get("condensed") and dtp in INT_TYPES:
        # plain mask: the masked bits are claimed, everything else in the field stays zero
        n = p.put_field(pos, bitpos, a["bl"], v, hl, mask_bits=a["mask"])
    else:
        return None
    end = pos + n
    if a.get("tail", True):
        p.put(end, 0xA5, 0xFF)
    return p


CM_ATOMS = {
    # name: (internal type, physical type, compu spec, valid internal range, injective)
    "lin-2x+3": ("A_UINT32", "A_INT32", {"cat": "LINEAR", "scales": [
        {"num": [3, 2], "den": [1], "lo": 0, "hi": 100}]}, (0, 100)),
    "lin-neg": ("A_INT32", "A_INT32", {"cat": "LINEAR", "scales": [
        {"num": [10, -3], "den": [1], "lo": -40, "hi": 40}]}, (-40, 40)),
    "lin-float": ("A_UINT32", "A_FLOAT64", {"cat": "LINEAR", "scales": [
        {"num": [-40, 0.5], "den": [1], "lo": 0, "hi": 250}]}, (0, 250)),
    "lin-den": ("A_INT32", "A_FLOAT64", {"cat": "LINEAR", "scales": [
        {"num": [7, 3], "den": [2], "lo": -100, "hi": 100}]}, (-100, 100)),
    "scale-lin": ("A_INT32", "A_INT32", {"cat": "SCALE-LINEAR", "scales": [
        {"num": [0, 1], "den": [1], "lo": -100, "hi": 0},
        {"num": [0, 2], "den": [1], "lo": {"v": 0, "it": "OPEN"}, "hi": 50},
        {"num": [50, 1], "den": [1], "lo": {"v": 50, "it": "OPEN"}, "hi": 100}]}, (-100, 100)),
    # a plateau between two rising scales: the plateau's value 10 is also the image of the boundary
    # value 10 of the first scale; the plateau encodes to its COMPU-INVERSE-VALUE
    "scale-plateau": ("A_UINT32", "A_INT32", {"cat": "SCALE-LINEAR", "scales": [
        {"num": [0, 1], "den": [1], "lo": 0, "hi": 10},
        {"num": [10, 0], "den": [1], "lo": 10, "hi": 20, "inv": 15},
        {"num": [-10, 1], "den": [1], "lo": {"v": 20, "it": "OPEN"}, "hi": 30}]}, (0, 30)),
    # a text table with a COMPU-DEFAULT-VALUE: internal values outside all scales decode to it
    "texttable-default": ("A_UINT32", "A_UNICODE2STRING", {"cat": "TEXTTABLE", "scales": [
        {"lo": 0, "hi": 0, "const": "off"}, {"lo": 1, "hi": 5, "const": "on"}], "default": "unknown"},
        (0, 12)),
    "tab-intp": ("A_UINT32", "A_INT32", {"cat": "TAB-INTP", "points": [(0, 0), (3, 100), (10, 240)],
                                         "scales": [{"lo": 0, "const": 0}, {"lo": 3, "const": 100},
                                                    {"lo": 10, "const": 240}]}, (0, 10)),
    "tab-intp-decr": ("A_UINT32", "A_INT32", {"cat": "TAB-INTP",
                                              "points": [(0, 200), (4, 100), (10, -50)],
                                              "scales": [{"lo": 0, "const": 200}, {"lo": 4, "const": 100},
                                                         {"lo": 10, "const": -50}]}, (0, 10)),
    "ratfunc": ("A_UINT32", "A_FLOAT64", {"cat": "RAT-FUNC",
                                          "scales": [{"num": [0, 1], "den": [100], "lo": 0, "hi": 200}],
                                          "inv_scales": [{"num": [0, 100], "den": [1], "lo": -10,
                                                          "hi": 10}]}, (0, 200)),
    "texttable": ("A_UINT32", "A_UNICODE2STRING", {"cat": "TEXTTABLE", "scales": [
        {"lo": 0, "hi": 0, "const": "off"}, {"lo": 1, "hi": 1, "const": "on"},
        {"lo": 4, "hi": 9, "const": "range", "inv": 6}, {"lo": 20, "hi": 20, "const": "edge"},
        {"lo": 30, "hi": 30, "const": ""}]},   # the empty text is a text
        (0, 30)),
}


def run_cmatom(sx, cfg, env):
    """DOPs with a compu method.  The symbolic input is the internal value k; the physical value
    is its image under the (real) compu method, so that it is exactly representable:
      C01  encode(image) -> decode gives the image back
      C02  the PDU carries k (injective methods) laid out by the reference
      C03  the reference PDU of k decodes and re-encodes to itself
    (C07 checks the conversions themselves against the formula.)"""
    from odxtools.exceptions import OdxError
    rq = env["rq"]
    prop = cfg["prop"]
    it, pt, cmspec, (lo, hi) = CM_ATOMS[cfg["cmname"]]
    bl = cfg["bl"]
    k = sx.int("k", lo - 3, hi + 3)
    dop = rq.parameters.val.dop
    base = dict(cfg)
    base.pop("cm", None)
    base["dt"] = it
    if not dop.compu_method.is_valid_internal_value(k):
        sx.cover("invalid-internal")
        if "default" in cmspec and prop in ("C01", "C02", "C05"):
            # an internal value outside all scales decodes to the COMPU-DEFAULT-VALUE
            rp = ref_pdu(base, k)
            if rp is not None:
                try:
                    dec = rq.decode(rp.result())
                except OdxError:
                    sx.fail("default-value-is-decoded")
                    return
                sx.require(dec["val"] == cmspec["default"], "default-value-is-decoded")
        return
    canonical = True
    if cmspec["cat"] == "SCALE-LINEAR":
        # canonical internal values of a plateau (factor 0): its COMPU-INVERSE-VALUE only
        seg = [sc for sc in cmspec["scales"] if s_and(
            (k > sc["lo"]["v"]) if isinstance(sc["lo"], dict) and sc["lo"].get("it") == "OPEN"
            else (k >= (sc["lo"]["v"] if isinstance(sc["lo"], dict) else sc["lo"])), k <= sc["hi"])]
        if seg and len(seg[0]["num"]) > 1 and seg[0]["num"][1] == 0:
            # ... unless an earlier scale attains the plateau's value: then the text encodes there
            level = seg[0]["num"][0] / seg[0].get("den", [1])[0]
            earlier = cmspec["scales"][:cmspec["scales"].index(seg[0])]

            def _lo(sc):
                return sc["lo"]["v"] + (1 if sc["lo"].get("it") == "OPEN" else 0) if isinstance(sc["lo"], dict) \
                    else sc["lo"]
            attained = any((sc["num"][0] + sc["num"][1] * x) / sc.get("den", [1])[0] == level
                           for sc in earlier for x in range(_lo(sc), sc["hi"] + 1))
            canonical = bool(k == seg[0].get("inv")) and not attained
    if cmspec["cat"] == "TEXTTABLE":
        # canonical internal values of a text table: the one the text encodes to
        seg = [sc for sc in cmspec["scales"]
               if s_and(k >= sc["lo"], k <= sc.get("hi", sc["lo"]))]
        canonical = bool(k == seg[0].get("inv", seg[0]["lo"]))
    y = dop.compu_method.convert_internal_to_physical(k)
    if prop in ("C01", "C02", "C04", "C08"):
        try:
            pdu = rq.encode(val=y)
        except OdxError:
            sx.fail("image-of-a-valid-internal-value-encodes")
            return
        sx.cover("accepted")
        sx.observe("pdu", core.frozen(pdu))
        dec = rq.decode(core.frozen(pdu))
        if isinstance(y, (float, core.SymFloat)):
            sx.require(_feq(dec["val"], y), "roundtrip:value")
        else:
            sx.require(dec["val"] == y, "roundtrip:value")
        if prop == "C02" and canonical:
            rp = ref_pdu(base, k)
            if rp is not None:
                sx.require(core.frozen(pdu) == rp.result(), "pdu-bit-exact")
        if prop == "C08":
            sx.require(8 * len(pdu) == rq.get_static_bit_length(), "static-bit-length-matches-encoding")
    elif prop == "C03":
        if not canonical:
            return
        rp = ref_pdu(base, k)
        if rp is None:
            return
        msg = rp.result()
        dec = rq.decode(msg)
        try:
            pdu2 = rq.encode(**dec)
        except OdxError:
            sx.fail("decoded-values-encode")
            return
        sx.cover("accepted")
        sx.require(core.frozen(pdu2) == msg, "decode-then-encode-reproduces-the-pdu")


def run_atom(sx, cfg, env):
    from odxtools.exceptions import OdxError, DecodeError
    from odxtools.decodestate import DecodeState
    import warnings
    if cfg.get("cmname"):
        return run_cmatom(sx, cfg, env)
    rq = env["rq"]
    a = cfg
    prop = cfg["prop"]
    v = the_value(sx, a)
    dtp = a["dt"]
    indom = None
    if dtp in INT_TYPES and a.get("dct", "std") == "std" and a.get("mask") is None:
        indom = odxref.int_domain(dtp, a.get("enc"), a["bl"], v)
    if a.get("mask") is not None:
        # BIT-MASK: bits outside the mask are not transmitted by design (the repository's own
        # tests rely on it), so the properties speak about values inside the mask
        sx.assume(s_and(v >= 0, (v & ~a["mask"]) == 0))
        if dtp == "A_INT32":
            sx.assume(v < (1 << (a["bl"] - 1)))
    if prop == "C03":
        return run_atom_c03(sx, cfg, env, v, indom)
    if prop in ("C01", "C02", "C08") and indom is not None:
        # these properties speak about values that are representable; what happens to the
        # others is C04's business
        sx.assume(indom)

    with warnings.catch_warnings(record=True) as wlist:
        warnings.simplefilter("always")
        try:
            pdu = rq.encode(val=v)
        except OdxError as e:
            sx.cover("rejected")
            sx.observe("outcome", "rejected:" + ("EncodeError" if type(e).__name__ == "EncodeError"
                                                 else "OdxError"))
            if prop == "C02" and dtp == "A_FLOAT32" and a.get("dct", "std") == "std":
                # every double that rounds to a finite binary32 number is representable (rounding is
                # the wire format); 2^128 - 2^103 is the first one that rounds to infinity
                sx.require(s_not(s_and(v > -3.4028235677973366e+38, v < 3.4028235677973366e+38)),
                           "representable-value-is-encoded")
            if prop == "C02":
                if indom is not None:
                    sx.fail("representable-value-is-encoded")
                else:
                    try:
                        representable = ref_pdu(a, v) is not None
                    except odxref.Reject:
                        representable = False
                    if representable:
                        sx.fail("representable-value-is-encoded")
            return
        except Exception as e:  # noqa: BLE001
            sx.observe("outcome", "foreign:" + type(e).__name__)
            if prop == "C04":
                sx.fail("rejection-uses-the-library-error-type")
            return
    sx.cover("accepted")
    sx.observe("pdu", core.frozen(pdu))
    overlap_warned = any("verlap" in str(w.message) for w in wlist)

    if prop in ("C01", "C04"):
        ds = DecodeState(coded_message=core.frozen(pdu))
        try:
            dec = rq.decode_from_pdu(ds)
        except Exception as e:  # noqa: BLE001
            sx.observe("decode-exception", type(e).__name__)
            sx.fail("own-pdu-decodes")
            return
        sx.require(dec["sid"] == 0x22, "roundtrip:constant")
        _require_same(sx, a, dec["val"], v, "roundtrip:value")
        if a.get("tail", True):
            sx.require(dec["tail"] == 0xA5, "roundtrip:following-parameter")
            sx.require(ds.cursor_byte_position == len(pdu), "decode-consumes-whole-pdu")

    if prop == "C02":
        if indom is not None:
            sx.require(indom, "accepted-value-is-representable")
        try:
            rp = ref_pdu(a, v)
        except odxref.Reject:
            sx.fail("accepted-value-is-representable")
            return
        if rp is not None:
            want = rp.result()
            sx.require(len(pdu) == len(want), "pdu-length-as-specified")
            sx.require(core.frozen(pdu) == want, "pdu-bit-exact")
            sx.require(overlap_warned == rp.overlap, "overlap-warning-iff-bits-claimed-twice")
            # decoding reads the same bits back: decode the REFERENCE pdu
            dec = rq.decode(want)
            _require_same(sx, a, dec["val"], v, "reference-pdu-decodes-to-value")

    if prop == "C02":
        # backend independence: the same encode with the other bitstruct back end gives the same
        # PDU.  Symbolic mode: the "py" variant of the model; concrete mode (replays): the real
        # pure-python bitstruct module instead of bitstruct.c
        import odxtools.encodestate as es
        import odxtools.decodestate as ds
        from models import bitstruct_model
        if sx.sym:
            other = bitstruct_model.Model("py" if cfg.get("backend", "c") == "c" else "c")
        else:
            import bitstruct as other
        saved = es.bitstruct, ds.bitstruct
        es.bitstruct = ds.bitstruct = other
        try:
            try:
                pdu_b = rq.encode(val=v)
                dec_b = rq.decode(core.frozen(pdu_b))
            except Exception as e:  # noqa: BLE001
                sx.observe("other-backend-exception", type(e).__name__)
                sx.fail("both-bitstruct-backends-agree")
                return
        finally:
            es.bitstruct, ds.bitstruct = saved
        sx.require(s_and(len(pdu_b) == len(pdu), core.frozen(pdu_b) == core.frozen(pdu)),
                   "both-bitstruct-backends-agree")
        _require_same(sx, a, dec_b["val"], v, "both-bitstruct-backends-agree")

    if prop == "C08":
        sbl = rq.get_static_bit_length()
        if sbl is not None:
            sx.require(8 * len(pdu) == sbl, "static-bit-length-matches-encoding")
        pre = rq.coded_const_prefix()
        sx.require(core.frozen(pdu)[:len(pre)] == bytes(pre), "coded-const-prefix-is-a-prefix")
        vp = rq.parameters.val
        vsl = vp.get_static_bit_length()
        nb = value_bits(a)
        if vsl is not None and nb is not None:
            sx.require(vsl == nb, "parameter-static-length")


def run_atom_c03(sx, cfg, env, v, indom):
    """decode -> encode on PDUs built by the reference interpreter from every internal value"""
    from odxtools.exceptions import OdxError
    rq = env["rq"]
    if indom is not None:
        sx.assume(indom)
    try:
        rp = ref_pdu(cfg, v)
    except odxref.Reject:
        sx.cover("not-representable")
        return
    if rp is None or rp.overlap:
        sx.cover("no-reference")
        return
    msg = rp.result()
    sx.observe("msg", msg)
    try:
        dec = rq.decode(msg)
    except Exception as e:  # noqa: BLE001
        sx.observe("decode-exception", type(e).__name__)
        sx.fail("canonical-pdu-decodes")
        return
    try:
        pdu2 = rq.encode(**dec)
    except Exception as e:  # noqa: BLE001
        sx.observe("encode-exception", type(e).__name__)
        sx.fail("decoded-values-encode")
        return
    sx.cover("accepted")
    sx.require(len(pdu2) == len(msg), "decode-then-encode-reproduces-the-pdu")
    sx.require(core.frozen(pdu2) == msg, "decode-then-encode-reproduces-the-pdu")


WRONG = {
    "int": [1.0, 1.5, "1", "x", None, True, b"\x01", bytearray(b"\x01"), [1], {"a": 1}, float("nan")],
    "bytes": [5, "ab", None, 1.5, [1, 2], True],
    "str": [5, b"ab", None, 1.5, ["a"], True],
    "float": ["1.0", None, b"\x00", [1.0], 1, True],
}


def run_wrongtype(sx, cfg, env):
    """C04, concrete operands: wrongly typed values, a missing required and an unknown
    parameter.  Outcome: OdxError, or a PDU that decodes back to the requested value."""
    from odxtools.exceptions import OdxError
    rq = env["rq"]
    kind = cfg["kind"]
    # a symbolic witness keeps the obligation inside the engine; the operands are concrete
    sel = sx.int("sel", 0, 0)
    sx.assume(sel == 0)
    cases = [("val", v) for v in WRONG[kind]] + [("missing", None), ("unknown", None)]
    for i, (what, v) in enumerate(cases):
        try:
            if what == "val":
                pdu = rq.encode(val=v)
            elif what == "missing":
                pdu = rq.encode()
            else:
                good = cfg["good"] if cfg["good"] is not None else b"\x01\x02"[:1 if cfg.get("dct") else 2]
                pdu = rq.encode(val=good, no_such_parameter=1)
        except OdxError:
            sx.cover("rejected")
            continue
        except Exception as e:  # noqa: BLE001
            sx.observe(f"case{i}", f"{what}:{v!r}:{type(e).__name__}")
            sx.require(False, "rejection-uses-the-library-error-type")
            continue
        sx.cover("accepted")
        if what != "val":
            sx.require(False, "missing-or-unknown-parameter-is-rejected")
            continue
        try:
            dec = rq.decode(bytes(pdu))
            # value-preserving acceptance is fine (True -> 1, 1 -> 1.0): compare by value
            if isinstance(v, (bytes, bytearray)):
                same = bytes(dec["val"]) == bytes(v)
            else:
                same = dec["val"] == v
        except Exception:  # noqa: BLE001
            same = False
        sx.observe(f"case{i}", f"{v!r}->{pdu.hex()}")
        sx.require(bool(same), "accepted-wrongly-typed-value-comes-back-unchanged")


WRONGTYPE_HARNESS = {"build": build_atom, "run": run_wrongtype, "width": 80,
                     "must_cover": ["rejected"]}


def wrongtype_configs():
    out = []
    for dtp, kind, good, extra in (("A_UINT32", "int", 1, {"bl": 8}), ("A_INT32", "int", 1, {"bl": 16}),
                                   ("A_BYTEFIELD", "bytes", b"\x01\x02", {"bl": 16}),
                                   ("A_UTF8STRING", "str", "ab", {"bl": 16}),
                                   ("A_FLOAT64", "float", 1.0, {"bl": 64}),
                                   ("A_BYTEFIELD", "bytes", b"\x01", {"dct": "minmax", "min": 0,
                                                                       "max": 4, "term": "ZERO"}),
                                   ("A_UTF8STRING", "str", "a", {"dct": "leading", "bl": 8})):
        a = dict(dt=dtp, enc=None, bitpos=0, bytepos=None, hl=True, **extra)
        c = dict(a)
        c.update(harness="wrongtype", id="wrongtype/" + atom_id(a), kind=kind, good=good, prop="C04",
                 build=dict(a), tail=True)
        if isinstance(good, bytes):
            c["good"] = None  # not JSON-able; the harness falls back below
        out.append(c)
    return out


def _require_same(sx, a, got, want, label):
    dtp = a["dt"]
    if dtp == "A_FLOAT32":
        import z3
        if isinstance(want, core.SymFloat):
            w32 = core.mkfloat(z3.fpToFP(core.RNE, z3.fpToFP(core.RNE, want.e, core.F32), core.F64))
        else:
            import struct
            try:
                w32 = struct.unpack(">f", struct.pack(">f", want))[0]
            except OverflowError:
                w32 = float("inf") if want > 0 else float("-inf")
        sx.require(_feq(got, w32), label)
        # rounding to binary32 is the wire format, overflowing to infinity is not
        inf = float("inf")
        sx.require(core.s_implies(s_and(want != inf, want != -inf),
                                  s_and(got != inf, got != -inf)), label + ":finite-stays-finite")
    elif dtp == "A_FLOAT64":
        sx.require(_feq(got, want), label)
    elif dtp == "A_BYTEFIELD":
        sx.require(s_and(len(got) == len(want), core.frozen(got) == core.frozen(want)), label)
    else:
        sx.require(got == want, label)
    sx.observe("decoded", got if not isinstance(got, (bytes, bytearray)) else core.frozen(got))


def _feq(a, b):
    """bit-level equality of two floats (distinguishes +0/-0)"""
    import z3
    import struct
    if isinstance(a, core.SymFloat) or isinstance(b, core.SymFloat):
        return core.mkbool(core.fp(a) == core.fp(b))  # structural (smt-lib =) equality
    return struct.pack(">d", float(a)) == struct.pack(">d", float(b))


# ---------------------------------------------------------------------------
# the atom catalogue
# ---------------------------------------------------------------------------
BL_ALL = [1, 2, 7, 8, 9, 12, 15, 16, 17, 24, 31, 32, 33, 63, 64]


def atoms(tier, seed):
    rnd = random.Random(seed)
    out = []
    bls = BL_ALL if tier == "quick" else list(range(1, 65))
    # plain integers: every bit length x bit position x byte order x byte position
    for dtp, encs in (("A_UINT32", [None]), ("A_INT32", [None, "2C", "1C", "SM"])):
        for enc in encs:
            for bl in bls:
                if dtp == "A_INT32" and bl < 2:
                    continue
                for bitpos in range(8):
                    for hl in (True, False):
                        for bytepos in (None, 1, 3):
                            out.append(dict(dt=dtp, enc=enc, bl=bl, bitpos=bitpos, hl=hl,
                                            bytepos=bytepos))
    for enc, unit in (("BCD-P", 4), ("BCD-UP", 8)):
        for bl in ([4, 8, 12, 16] if tier == "quick" else
                   ([4, 8, 12, 16, 20] if enc == "BCD-P" else [8, 16, 24])):
            if bl % unit:
                continue
            for bitpos in (0, 4):
                for hl in (True, False):
                    out.append(dict(dt="A_UINT32", enc=enc, bl=bl, bitpos=bitpos, hl=hl,
                                    bytepos=None))
    for dtp, bl in (("A_FLOAT32", 32), ("A_FLOAT64", 64)):
        for hl in (True, False):
            for bytepos in (None, 2):
                out.append(dict(dt=dtp, enc=None, bl=bl, bitpos=0, hl=hl, bytepos=bytepos))
    # byte fields: declared length x supplied length (shorter, equal, longer)
    for bl in (8, 16, 32):
        for vlen in range(0, bl // 8 + 2):
            out.append(dict(dt="A_BYTEFIELD", enc=None, bl=bl, bitpos=0, hl=True, bytepos=None,
                            vlen=vlen))
    # strings (concrete operands from the string catalogue)
    for dtp, encs in (("A_ASCIISTRING", [None]), ("A_UTF8STRING", [None]),
                      ("A_UNICODE2STRING", [None, "UTF-8", "UCS-2", "ISO-8859-1", "ISO-8859-2",
                                            "WINDOWS-1252"])):
        for enc in encs:
            for sidx in range(len(STRING_CATALOGUE)):
                for bl in (8, 16, 32):
                    for hl in ((True, False) if dtp == "A_UNICODE2STRING" else (True,)):
                        out.append(dict(dt=dtp, enc=enc, bl=bl, bitpos=0, hl=hl, bytepos=None,
                                        sidx=sidx))
    # symbolic strings (every valid text of each byte length)
    for dtp, encs in (("A_ASCIISTRING", [None]), ("A_UTF8STRING", [None]),
                      ("A_UNICODE2STRING", [None, "UTF-8", "ISO-8859-2", "WINDOWS-1252"])):
        for enc in encs:
            for hl in ((True, False) if dtp == "A_UNICODE2STRING" and enc is None else (True,)):
                for slen in (0, 1, 2, 3, 4):
                    for bl in (16, 32):
                        if abs(bl // 8 - slen) > 1 and slen not in (0,):
                            continue
                        out.append(dict(dt=dtp, enc=enc, bl=bl, bitpos=0, hl=hl, bytepos=None,
                                        slen=slen))
                    if enc is None:
                        out.append(dict(dt=dtp, enc=None, dct="minmax", min=0, max=4, term="ZERO",
                                        tail=True, bitpos=0, bytepos=None, hl=hl, slen=slen))
                        out.append(dict(dt=dtp, enc=None, dct="leading", bl=8, bitpos=0,
                                        bytepos=None, hl=hl, slen=slen))
    # IS-HIGHLOW-BYTE-ORDER absent (the default is high-low) where more than one byte is involved
    for dtp in ("A_UINT32", "A_INT32"):
        for bl, bitpos in ((16, 0), (12, 3), (32, 0)):
            out.append(dict(dt=dtp, enc=None, bl=bl, bitpos=bitpos, hl=None, bytepos=None))
    for lbl in (12, 16):
        for x in (0, 1, 3):
            out.append(dict(dt="A_BYTEFIELD", enc=None, dct="leading", bl=lbl, bitpos=0, bytepos=None,
                            hl=None, vlen=x))
    out.append(dict(dt="A_UNICODE2STRING", enc=None, bl=32, bitpos=0, hl=None, bytepos=None, sidx=9))
    # explicit BASE-TYPE-ENCODING on the variable-length types
    for dtp, enc in (("A_ASCIISTRING", "ISO-8859-2"), ("A_ASCIISTRING", "WINDOWS-1252"),
                     ("A_ASCIISTRING", "UTF-8"), ("A_UNICODE2STRING", "ISO-8859-2"),
                     ("A_UTF8STRING", "ISO-8859-1")):
        for slen in (0, 1, 2, 3):
            out.append(dict(dt=dtp, enc=enc, dct="leading", bl=8, bitpos=0, bytepos=None, hl=True,
                            slen=slen))
            if dtp != "A_UNICODE2STRING":
                out.append(dict(dt=dtp, enc=enc, dct="minmax", min=0, max=4, term="ZERO", tail=True,
                                bitpos=0, bytepos=None, hl=True, slen=slen))
        for sidx in (1, 4, 5, 9, 12):
            out.append(dict(dt=dtp, enc=enc, dct="leading", bl=8, bitpos=0, bytepos=None, hl=True,
                            sidx=sidx))
            if dtp != "A_UNICODE2STRING":
                out.append(dict(dt=dtp, enc=enc, dct="minmax", min=0, max=4, term="ZERO", tail=True,
                                bitpos=0, bytepos=None, hl=True, sidx=sidx))
    # DOPs with compu methods (see run_cmatom)
    for name, (it, pt, cmspec, _) in CM_ATOMS.items():
        for bl, bitpos, hl in (((16, 3, False),) if tier == "quick" else
                               ((8, 0, True), (16, 3, False), (12, 4, True))):
            out.append(dict(dt=it, enc=None, bl=bl, bitpos=bitpos, hl=hl, bytepos=None, cm=cmspec,
                            ptype=pt, cmname=name))
    # BIT-MASK (plain and condensed) on integers
    for dtp in ("A_UINT32", "A_INT32"):
        for bl, mask in ((8, 0x0F), (8, 0xA5), (16, 0xF00F), (16, 0x3FC), (12, 0x555), (24, 0xFF00FF),
                         (8, 0x80), (8, 0x01), (16, 0x0100)):
            for condensed in (None, True):
                for bitpos in (0, 2):
                    for hl in (True, False):
                        out.append(dict(dt=dtp, enc=None, bl=bl, bitpos=bitpos, hl=hl, bytepos=None,
                                        mask=mask, condensed=condensed))
    # MIN-MAX-LENGTH-TYPE and LEADING-LENGTH-INFO-TYPE
    for dtp, encs in (("A_BYTEFIELD", [None]), ("A_ASCIISTRING", [None]), ("A_UTF8STRING", [None]),
                      ("A_UNICODE2STRING", [None])):
        for mn, mx in ((0, None), (1, 3), (2, 2), (0, 2), (2, 4)):
            if dtp == "A_UNICODE2STRING" and (mn % 2 or (mx or 0) % 2):
                continue  # lengths of 16-bit code unit strings are even
            for term in ("ZERO", "HEX-FF", "END-OF-PDU"):
                for tail in (True, False):
                    if term == "END-OF-PDU" and tail:
                        continue
                    vals = (range(0, (mx or 3) + 2) if dtp == "A_BYTEFIELD"
                            else range(len(STRING_CATALOGUE)))
                    for x in vals:
                        a = dict(dt=dtp, enc=None, dct="minmax", min=mn, max=mx, term=term,
                                 tail=tail, bitpos=0, bytepos=None, hl=True)
                        a["vlen" if dtp == "A_BYTEFIELD" else "sidx"] = x
                        out.append(a)
        for lbl in (4, 8, 12, 16):
            for bitpos in (0, 4):
                for hl in (True, False):
                    vals = (range(0, 4) if dtp == "A_BYTEFIELD" else (0, 1, 2, 4, 5, 7, 10, 13))
                    for x in vals:
                        a = dict(dt=dtp, enc=None, dct="leading", bl=lbl, bitpos=bitpos,
                                 bytepos=None, hl=hl)
                        a["vlen" if dtp == "A_BYTEFIELD" else "sidx"] = x
                        out.append(a)
    if tier == "quick":
        # seeded sample of the full product; all boundary members are kept
        def boundary(a):
            return (a.get("cmname") is not None or a.get("slen") is not None or
                    (a["dt"] not in INT_TYPES and a.get("dct", "std") == "std") or
                    a.get("enc") in ("BCD-P", "BCD-UP") or
                    (a["dt"] in INT_TYPES and a["bl"] in (1, 2, 8, 64) and a["bitpos"] in (0, 7)
                     and a["bytepos"] is None))
        keep = [a for a in out if boundary(a)]
        rest = [a for a in out if not boundary(a)]
        rnd.shuffle(rest)
        strs = [a for a in keep if a["dt"] in odxref.STRINGS and a.get("slen") is None]
        rnd.shuffle(strs)
        keep = [a for a in keep if a["dt"] not in odxref.STRINGS or a.get("slen") is not None] + \
            strs[:60]
        out = keep + rest[:len(rest) // 2]
    return out


def configs_for(prop, tier, seed):
    cfgs = []
    for a in atoms(tier, seed):
        if a.get("cmname") and (prop == "C04" or (tier == "quick" and prop not in ("C01", "C03"))):
            # compu-method DOPs: FP-heavy (8..45 s each); quick tier only where they matter most.
            # C04: rounding by a compu method is specified behaviour, not misrepresentation
            continue
        c = dict(a)
        c["prop"] = prop
        c["harness"] = "atom"
        c["id"] = "atom/" + atom_id(a)
        c["build"] = {k: v for k, v in a.items() if k not in ("vlen", "sidx", "slen")}
        c["tail"] = a.get("tail", True)
        if a["dt"] == "A_UINT32" and a.get("enc") == "BCD-P":
            c["W"] = 48
        cfgs.append(c)
    # the same descriptions read from their ODX text by odxtools' own parser: a seeded fifth of
    # them in the quick tier (all kinds of diag coded types, masks, encodings), all in the thorough one
    rnd = random.Random(seed + 7)
    for c in list(cfgs):
        if c.get("dct") == "paramlen":
            continue
        if tier == "quick" and rnd.random() > 0.2 and c.get("mask") is None and \
                c.get("dct", "std") == "std" and c.get("enc") is None:
            continue
        x = dict(c, id=c["id"] + "/xml", via_xml=True, build=dict(c["build"], via_xml=True))
        cfgs.append(x)
    return cfgs


ATOM_HARNESS = {
    "build": build_atom, "run": run_atom, "width": 80,
    "must_cover": ["accepted"],
    "limits": {"quick": explore.Limits(max_paths=3000, wall_s=120, timeout_ms=15000),
               "thorough": explore.Limits(max_paths=20000, wall_s=600, timeout_ms=60000)},
}

STUBS = ["bitstruct -> models.bitstruct_model", "int/float/bytes/bytearray shims",
         "EncodeState.__post_init__ -> SymByteArray buffers", "DataType.make_from keeps proxies"]
