"""C03 - decoding a PDU and re-encoding the result reproduces the PDU.

PDUs are built by the reference interpreter (models/odxref.py, harness/composite.py) from every
representable internal value (symbolic), i.e. they are in canonical form by construction; the
real decoder and then the real encoder must reproduce them bit for bit.  The conversion half
(internal -> physical -> internal is the identity for injective compu methods) reuses the
round-trip harness of C07 under the exact binary64 model.
"""
from harness import codec_common as cc
from harness import composite as cp
from harness import c07

HARNESSES = {"atom": cc.ATOM_HARNESS, "composite": cp.COMPOSITE_HARNESS,
             "roundtrip": c07.HARNESSES["roundtrip"]}
STUBS = cc.STUBS


def configs(tier, seed):
    out = cc.configs_for("C03", tier, seed) + cp.configs_for("C03", tier, seed)
    out += [c for c in c07.configs(tier, seed) if c["harness"] == "roundtrip"]
    return out


BOUNDS = {"pdus": "reference-built PDUs of every atom (bit length x position x byte order x "
                  "encoding) and of the 25 nested descriptions, from symbolic internal values",
          "conversions": "as C07 round trip (8-bit quick / 12-bit thorough integers)"}
ASSUMPTIONS = ["canonical form == image of the reference encoder (constants as specified, "
               "undescribed bits zero, canonical sign/BCD patterns)"]
