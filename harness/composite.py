"""Composite descriptions for C01 / C02 / C04 / C08: nesting of structures, fields, multiplexer,
explicit positions, BYTE-SIZE, length keys, constants, defaults, request echoes.

One spec (catalogue/build.py format) feeds the real-object builder, the symbolic value generator
and the reference layout (ref_*) below, which states the ODX rules independently:
 * structure: ORIGIN := its first byte; with BYTE-SIZE it occupies exactly that many bytes
 * static field: item i starts at start + i*ITEM-BYTE-SIZE
 * dynamic length field: count at start + BYTE-POSITION, items contiguous from start + OFFSET
 * end-of-pdu field: items contiguous up to the end
 * multiplexer: key at start + key BYTE-POSITION, case structure at start + BYTE-POSITION
"""
import copy

from symx import core, explore
from symx.core import s_and, s_or, s_not
from models import odxref
from catalogue import build
from harness import codec_common as cc

U8 = {"dt": "A_UINT32", "bl": 8}
U16 = {"dt": "A_UINT32", "bl": 16}
S8 = {"dt": "A_INT32", "bl": 8}
U4 = {"dt": "A_UINT32", "bl": 4}


def V(name, dop, **kw):
    return dict(kind="value", name=name, dop=dop, **kw)


def C(name, value, bl=8, **kw):
    return dict(kind="const", name=name, type={"dt": "A_UINT32", "bl": bl}, value=value, **kw)


SID = C("sid", 0x22, bytepos=0)
TAIL = C("tail", 0xA5)


def S(params, **kw):
    return dict(complex="structure", params=params, **kw)


COMPOSITES = {
    "two-values": {"params": [SID, V("a", U8), V("b", U16), TAIL]},
    "signed-and-lowhigh": {"params": [SID, V("a", S8), V("b", dict(U16, hl=False)), TAIL]},
    "bit-packed": {"params": [SID, V("hi", U4, bytepos=1, bitpos=4), V("lo", U4, bytepos=1, bitpos=0),
                              V("c", dict(dt="A_UINT32", bl=12), bytepos=2, bitpos=2), TAIL]},
    "out-of-order": {"params": [SID, V("late", U8, bytepos=3), V("early", U16, bytepos=1),
                                C("end", 0x5A, bytepos=4)]},
    "overlap": {"params": [SID, V("a", U16, bytepos=1), V("b", U8, bytepos=2)]},
    "default-omitted": {"params": [SID, V("a", U8, default=7), V("b", U8), TAIL], "omit": ["a"]},
    "physconst-reserved": {"params": [SID, dict(kind="physconst", name="pc", dop=U8, value=0x42),
                                      dict(kind="reserved", name="rsv", bl=12), V("a", U8), TAIL]},
    "default-in-structure": {"params": [SID, V("st", S([V("level", U8, default=3), V("mode", U8),
                                                        C("k", 0x11), dict(kind="reserved", name="r", bl=8)])),
                                        TAIL]},
    "default-supplied": {"params": [SID, V("a", U8, default=7), V("b", S8, default=-3), TAIL]},
    "reserved-bitpos": {"params": [SID, dict(kind="reserved", name="r1", bl=6, bitpos=4), V("a", U8),
                                   dict(kind="reserved", name="r2", bl=12, bitpos=5), V("b", U8),
                                   dict(kind="reserved", name="r3", bl=3, bitpos=2), TAIL]},
    "reserved-last": {"params": [SID, V("a", U8), dict(kind="reserved", name="r", bl=7, bitpos=3)]},
    "mux-then-positioned": {"params": [SID, V("pre", U8), V("m", dict(
        complex="mux", bytepos=1, key_dop=U8, cases=[
            dict(name="c1", lo=1, hi=3, structure=dict(params=[V("a", U8)])),
            dict(name="c3", lo=10, hi=20, structure=None)],
        default=dict(name="dflt", structure=None))), V("post", U8, bytepos=5), C("end", 0x5A, bytepos=6)],
        "cases": ["c1", "c3", "dflt"]},
    "mux-in-structure": {"params": [SID, V("st", S([V("h", U8), V("m", dict(
        complex="mux", bytepos=1, key_dop=U8, cases=[
            dict(name="c1", lo=1, hi=1, structure=dict(params=[V("a", U16)])),
            dict(name="c2", lo=2, hi=2, structure=None)])), V("t", U8, bytepos=5)])), TAIL],
        "cases": ["c1", "c2"]},
    "reserved-shares-byte": {"params": [SID, dict(kind="reserved", name="r", bl=4, bytepos=1, bitpos=0),
                                        V("hi", U4, bytepos=1, bitpos=4), TAIL]},
    "const-after-reserved": {"params": [SID, dict(kind="reserved", name="r", bl=8), C("c2", 0x77),
                                        V("a", U8)]},
    "overlap-three": {"params": [SID, V("a", U4, bytepos=1, bitpos=0), V("b", U4, bytepos=1, bitpos=4),
                                 V("c", dict(dt="A_UINT32", bl=2), bytepos=1, bitpos=1)]},
    "static-field-wrong-count": {"params": [SID, V("f", dict(
        complex="staticfield", count=2, item_byte_size=2,
        structure=dict(params=[V("x", U8), V("y", U8)]))), TAIL], "counts": [0, 1, 3]},
    "structure": {"params": [SID, V("st", S([V("x", U8), V("y", U16)])), TAIL]},
    "structure-positions": {"params": [SID, V("pre", U8),
                                       V("st", S([V("x", U8, bytepos=1), V("y", U8, bytepos=0)])),
                                       TAIL]},
    "structure-bytesize": {"params": [SID, V("st", S([V("x", U8)], byte_size=3)), TAIL]},
    # a padded structure as the final object: the padding bytes belong to the PDU
    "structure-bytesize-last": {"params": [SID, V("pre", U8), V("st", S([V("x", U8)], byte_size=4))]},
    "structure-bytesize-offset": {"params": [SID, V("pre", U16),
                                             V("st", S([V("x", U8)], byte_size=3)), TAIL]},
    "nested-structure": {"params": [SID, V("outer", S([
        V("a", U8), V("inner", S([V("p", U4, bytepos=0, bitpos=4), V("q", U4, bytepos=0, bitpos=0),
                                  V("r", U8)])), V("b", U8)])), TAIL]},
    "nested-bytesize": {"params": [SID, V("pre", U8), V("outer", S([
        V("a", U8), V("inner", S([V("p", U8)], byte_size=2)), V("b", U8)], byte_size=6)), TAIL]},
    # explicitly positioned siblings behind a nested object that does not start at offset 0: the
    # positions are relative to the ENCLOSING object again
    "structure-then-positioned": {"params": [SID, V("st", S([V("a", U8), V("b", U8)])),
                                             V("post", U8, bytepos=3), C("end", 0x5A, bytepos=4)]},
    "static-field-then-positioned": {"params": [SID, V("f", dict(
        complex="staticfield", count=2, item_byte_size=2,
        structure=dict(params=[V("x", U8), V("y", U8)]))), V("a", U8, bytepos=5), V("b", U8, bytepos=6)]},
    "static-field-behind-positioned": {"params": [SID, V("a", U8, bytepos=1), V("f", dict(
        complex="staticfield", count=2, item_byte_size=1,
        structure=dict(params=[V("x", U8)])), bytepos=2), V("b", U8, bytepos=1, bitpos=0)][:3] + [TAIL]},
    # terminated items of a field that ends the PDU: only the LAST item is at the end of the PDU
    "static-field-minmax-last": {"params": [SID, V("f", dict(
        complex="staticfield", count=2, item_byte_size=4,
        structure=dict(params=[V("d", dict(dt="A_BYTEFIELD", dct="minmax", min=0, max=3,
                                           term="HEX-FF"))])))], "blens": [0, 1, 3]},
    # items that end in a terminated object: every item but the last one needs its terminator
    "eop-field-minmax-item": {"params": [SID, V("f", dict(
        complex="eopfield", structure=dict(params=[V("id", U8), V("d", dict(
            dt="A_BYTEFIELD", dct="minmax", min=0, max=3, term="ZERO"))])))],
        "counts": [1, 2, 3], "blens": [1, 2, 3]},
    # a field with a minimum and a maximum number of items
    "eop-field-bounded": {"params": [SID, V("f", dict(
        complex="eopfield", min=1, max=2, structure=dict(params=[V("x", U8), V("y", U8)])))],
        "counts": [1, 2]},
    # a constant that shares its byte with a value
    "nibble-const-shares-byte": {"params": [SID, C("c", 0xA, bl=4, bitpos=4),
                                            V("ch", U4, bytepos=1, bitpos=0), TAIL]},
    "static-field": {"params": [SID, V("f", dict(complex="staticfield", count=2, item_byte_size=3,
                                                 structure=dict(params=[V("x", U8), V("y", U8)]))),
                                TAIL]},
    "static-field-offset": {"params": [SID, V("pre", U16), V("f", dict(
        complex="staticfield", count=2, item_byte_size=2,
        structure=dict(params=[V("x", U8, bytepos=1), V("y", U8, bytepos=0)]))), TAIL]},
    "dynlen-field": {"params": [SID, V("f", dict(complex="dynlenfield", count_dop=U8, offset=1,
                                                 structure=dict(params=[V("x", U8), V("y", U8)]))),
                                TAIL], "counts": [0, 1, 2, 3]},
    # an empty field as the last object: the bytes between the counter and OFFSET still exist
    "dynlen-field-offset-last": {"params": [SID, V("f", dict(
        complex="dynlenfield", count_dop=U8, offset=3,
        structure=dict(params=[V("x", U8)])))], "counts": [0, 1, 2]},
    # a signed item counter
    "dynlen-field-signed-count": {"params": [SID, V("f", dict(
        complex="dynlenfield", count_dop=S8, offset=1,
        structure=dict(params=[V("x", U8)]))), TAIL], "counts": [0, 1, 2]},
    "dynlen-field-offset2": {"params": [SID, V("pre", U8), V("f", dict(
        complex="dynlenfield", count_dop=U4, count_bitpos=4, offset=2,
        structure=dict(params=[V("x", U16)]))), TAIL], "counts": [0, 1, 2, 15, 16]},
    "eop-field": {"params": [SID, V("pre", U8), V("f", dict(
        complex="eopfield", structure=dict(params=[V("x", U8), V("y", S8)])))], "counts": [0, 1, 2, 3]},
    "eop-field-struct": {"params": [SID, V("st", S([V("pre", U8), V("f", dict(
        complex="eopfield", structure=dict(params=[V("x", U16)])))]))], "counts": [0, 1, 2]},
    "endmarker-field-end": {"params": [SID, V("f", dict(
        complex="endmarkerfield", end_dop=U8, end_value=255,
        structure=dict(params=[V("x", U8), V("y", U8)])))], "counts": [0, 1, 2]},
    # the field itself does not consume its termination value: as in the repo's own test, the
    # description covers it with a RESERVED parameter
    "endmarker-field-mid": {"params": [SID, V("f", dict(
        complex="endmarkerfield", end_dop=U8, end_value=255,
        structure=dict(params=[V("x", U8), V("y", U8)]))),
        dict(kind="reserved", name="endmarker", bl=8), TAIL], "counts": [0, 1, 2]},
    "mux": {"params": [SID, V("m", dict(
        complex="mux", bytepos=1, key_dop=U8, cases=[
            dict(name="c1", lo=1, hi=3, structure=dict(params=[V("a", U8)])),
            dict(name="c2", lo=4, hi=4, structure=dict(params=[V("b", U16)])),
            dict(name="c3", lo=10, hi=20, structure=None)],
        default=dict(name="dflt", structure=dict(params=[V("z", U8)]))))],
        "cases": ["c1", "c2", "c3", "dflt"]},
    "mux-zero-case": {"params": [SID, V("m", dict(
        complex="mux", bytepos=1, key_dop=U8, cases=[
            dict(name="c0", lo=0, hi=2, structure=dict(params=[V("a", U8)])),
            dict(name="c1", lo=3, hi=3, structure=dict(params=[V("b", U16)]))],
        default=dict(name="dflt", structure=dict(params=[V("z", U8)]))))],
        "cases": ["c0", "c1", "dflt"]},
    "mux-unordered-cases": {"params": [SID, V("m", dict(
        complex="mux", bytepos=1, key_dop=U8, cases=[
            dict(name="c5", lo=5, hi=6, structure=dict(params=[V("a", U8)])),
            dict(name="c1", lo=1, hi=4, structure=dict(params=[V("b", U16)])),
            dict(name="c0", lo=0, hi=0, structure=None)],
        default=dict(name="dflt", structure=dict(params=[V("z", U8)]))))],
        "cases": ["c5", "c1", "c0", "dflt"]},
    "mux-key-bits": {"params": [SID, V("pre", U8), V("m", dict(
        complex="mux", bytepos=1, key_dop=U4, key_bitpos=4, cases=[
            dict(name="c1", lo=1, hi=1, structure=dict(params=[V("a", U8), V("b", U8)])),
            dict(name="c2", lo=2, hi=5, structure=dict(params=[V("b", U8)]))])), ],
        "cases": ["c1", "c2"]},
    "length-key": {"params": [SID, dict(kind="lengthkey", name="lk", id="LK1", dop=U8),
                              V("data", dict(dt="A_UINT32", dct="paramlen", length_key="LK1")), TAIL],
                   "lengths": [0, 8, 16, 24]},
    # a key is the right-most parameter of a nested structure; what follows is placed by the cursor
    "length-key-ends-structure": {"params": [SID, V("st", S([
        V("x", U8), dict(kind="lengthkey", name="lk", id="LK5", dop=U8)])),
        V("data", dict(dt="A_UINT32", dct="paramlen", length_key="LK5")), TAIL],
        "lengths": [8, 16]},
    # a signed length key
    "length-key-signed": {"params": [SID, dict(kind="lengthkey", name="lk", id="LK7", dop=S8),
                                     V("data", dict(dt="A_UINT32", dct="paramlen", length_key="LK7")), TAIL],
                          "lengths": [8, 16]},
    # an explicitly positioned length key inside a structure that does not start at byte 0
    "length-key-positioned-in-structure": {"params": [SID, V("pre", U8), V("st", S([
        V("x", U8, bytepos=0), dict(kind="lengthkey", name="lk", id="LK8", dop=U8, bytepos=1)])),
        V("data", dict(dt="A_UINT32", dct="paramlen", length_key="LK8")), TAIL], "lengths": [8, 16]},
    # the key sits at BYTE-POSITION 0 of its structure but comes second in document order
    "length-key-at-zero-after-sibling": {"params": [SID, V("pre", U8), V("st", S([
        V("x", U8, bytepos=1), dict(kind="lengthkey", name="lk", id="LKB", dop=U8, bytepos=0)])),
        V("data", dict(dt="A_UINT32", dct="paramlen", length_key="LKB")), TAIL], "lengths": [8, 16]},
    # key and keyed data inside a structure, more data behind the structure
    "length-key-and-data-in-structure": {"params": [SID, V("blob", S([
        dict(kind="lengthkey", name="lk", id="LK9", dop=U8),
        V("data", dict(dt="A_UINT32", dct="paramlen", length_key="LK9"))])), V("chk", U8)],
        "lengths": [8, 16]},
    "length-key-implicit": {"params": [SID, dict(kind="lengthkey", name="lk", id="LK2", dop=U8),
                                       V("data", dict(dt="A_UINT32", dct="paramlen", length_key="LK2")),
                                       TAIL], "lengths": [None]},
}

TBL = {"name": "tbl", "key_dop": U8, "rows": [
    {"name": "r1", "key": 1, "structure": {"params": [V("a", U8), V("b", S8)]}},
    {"name": "r2", "key": 2, "dop": U16},
    {"name": "r7", "key": 7, "structure": {"params": [V("c", U16, bytepos=1), V("d", U8, bytepos=0)]}}]}
TBL12 = dict(TBL, name="tbl12", key_dop=dict(dt="A_UINT32", bl=12))
TBL4 = dict(TBL, name="tbl4", key_dop=U4)
DTCS = [{"name": "P0001", "code": 1}, {"name": "P0500", "code": 0x500}, {"name": "PFFFF", "code": 0xFFFFFF}]
COMPOSITES.update({
    "table": {"params": [SID, dict(kind="tablekey", name="tk", id="TK1", table=TBL),
                         dict(kind="tablestruct", name="ts", key="TK1"), TAIL],
              "rows": ["r1", "r2", "r7"]},
    "table-key-12-bits": {"params": [SID, dict(kind="tablekey", name="tk", id="TK3", table=TBL12),
                                     dict(kind="tablestruct", name="ts", key="TK3"), TAIL],
                          "rows": ["r1", "r2", "r7"]},
    "table-key-bitpos": {"params": [SID, dict(kind="tablekey", name="tk", id="TK4", table=TBL4, bitpos=4),
                                    dict(kind="tablestruct", name="ts", key="TK4"), TAIL],
                         "rows": ["r1", "r2"]},
    "table-row-ref": {"params": [SID, dict(kind="tablekey", name="tk", id="TK2", table=TBL, row="r1"),
                                 dict(kind="tablestruct", name="ts", key="TK2"), TAIL],
                      "rows": ["r1"]},
    # SYSTEM parameters: supplied by the caller, or taken from the clock (a nondeterministic stub:
    # arbitrary second/minute/hour/day/month/year within their documented ranges)
    "system-supplied": {"params": [SID, dict(kind="system", name="sec", sysparam="SECOND", dop=U8),
                                   dict(kind="system", name="yr", sysparam="YEAR", dop=U16), TAIL]},
    "system-vendor": {"params": [SID, dict(kind="system", name="odo", sysparam="ODOMETER", dop=U16),
                                 dict(kind="system", name="yr", sysparam="Year", dop=U16),
                                 dict(kind="system", name="mo", sysparam="MONTH", dop=U8), TAIL]},
    "system-clock": {"params": [SID, dict(kind="system", name="sec", sysparam="SECOND", dop=U8),
                                dict(kind="system", name="hr", sysparam="HOUR", dop=U8),
                                dict(kind="system", name="dy", sysparam="DAY", dop=U8),
                                dict(kind="system", name="mo", sysparam="MONTH", dop=U4, bitpos=4),
                                dict(kind="system", name="yr", sysparam="YEAR", dop=U16),
                                dict(kind="system", name="cent", sysparam="CENTURY", dop=U8), TAIL],
                     "clock": True},
    "static-field-varitem": {"params": [SID, V("f", dict(
        complex="staticfield", count=2, item_byte_size=3,
        structure=dict(params=[V("d", dict(dt="A_BYTEFIELD", dct="leading", bl=8))]))), TAIL],
        "blens": [0, 1, 2]},
    "dynlen-field-varitem": {"params": [SID, V("f", dict(
        complex="dynlenfield", count_dop=U8, offset=1,
        structure=dict(params=[V("d", dict(dt="A_BYTEFIELD", dct="leading", bl=4, bitpos=4)),
                               V("t", U8)])))], "counts": [0, 1, 2], "blens": [0, 2]},
    "env-data": {"params": [SID, V("d", dict(complex="dtc", dt="A_UINT32", bl=24, dtcs=DTCS)),
                            V("env", dict(complex="envdatadesc", param="d", datas=[
                                dict(name="common", all=True, params=[V("mileage", U16)]),
                                dict(name="first", dtcs=[1], params=[V("temp", S8)]),
                                dict(name="second", dtcs=[0x500, 0xFFFFFF],
                                     params=[V("volt", U8), V("amp", U8)])])), TAIL]},
    # environment data with only the ALL-VALUE part applicable (DTC 7 has no data of its own),
    # followed by a structure: unknown keys in the structure must still be rejected
    "env-data-then-structure": {"params": [SID, V("d", dict(dt="A_UINT32", bl=8)),
                                           V("env", dict(complex="envdatadesc", param="d", datas=[
                                               dict(name="common", all=True, params=[V("mileage", U16)]),
                                               dict(name="one", dtcs=[1], params=[V("x", U8)])])),
                                           V("st", S([V("a", U8), V("b", U8)])), TAIL]},
    # the ENV-DATA elements are read from their ODX text
    "env-data-from-xml": {"params": [SID, V("d", dict(dt="A_UINT32", bl=8)),
                                     V("env", dict(complex="envdatadesc", param="d", xml=True, datas=[
                                         dict(name="common", all=True, params=[V("mileage", U16)]),
                                         dict(name="one", dtcs=[1, 2], params=[V("x", U8)])])), TAIL]},
    "env-data-no-common": {"params": [SID, V("d", dict(dt="A_UINT32", bl=8)),
                                      V("env", dict(complex="envdatadesc", param="d", datas=[
                                          dict(name="one", dtcs=[1, 2], params=[V("x", U8)]),
                                          dict(name="nine", dtcs=[9], params=[V("y", U16)])]))]},
    "env-data-in-field": {"params": [SID, V("recs", dict(complex="eopfield", structure=dict(params=[
        V("d", dict(dt="A_UINT32", bl=8)),
        V("env", dict(complex="envdatadesc", param="d", datas=[
            dict(name="one", dtcs=[1, 2], params=[V("temperature", U8)]),
            dict(name="nine", dtcs=[9], params=[V("pressure", U8)])]))])))],
        "counts": [1, 2, 3]},
    "dynlen-field-minmax-item-at-end": {"params": [SID, V("f", dict(
        complex="dynlenfield", count_dop=U8, offset=1,
        structure=dict(params=[V("t", U8), V("d", dict(dt="A_BYTEFIELD", dct="minmax", min=0, max=3,
                                                        term="HEX-FF"))])))],
        "counts": [1, 2], "blens": [0, 1, 3]},
    "minmax-in-structure": {"params": [SID, V("st", S([V("d", dict(dt="A_BYTEFIELD", dct="minmax", min=1,
                                                                    max=4, term="ZERO")), V("t", U8)])),
                                       TAIL], "blens": [1, 2, 4]},
    "length-key-bitpos": {"params": [SID, dict(kind="lengthkey", name="lk", id="LK3",
                                               dop=dict(dt="A_UINT32", bl=6), bitpos=4),
                                     V("data", dict(dt="A_UINT32", dct="paramlen", length_key="LK3")),
                                     TAIL], "lengths": [8, 16]},
    "dtc": {"params": [SID, V("d", dict(complex="dtc", dt="A_UINT32", bl=24, dtcs=DTCS)), TAIL]},
    "dtc-lowhigh": {"params": [SID, V("pre", U8), V("d", dict(complex="dtc", dt="A_UINT32", bl=24,
                                                                hl=False, dtcs=DTCS))]},
})

RESPONSES_EXTRA = {
    "nrc-response": {"params": [C("sid", 0x7F, bytepos=0), dict(kind="matchreq", name="rsid", rqpos=0, len=1),
                                dict(kind="nrcconst", name="nrc", type={"dt": "A_UINT32", "bl": 8},
                                     values=[0x11, 0x31]), V("extra", U8)], "request_len": [1, 2]},
}
def _nrc(bl, bitpos=0):
    return {"params": [C("sid", 0x7F, bytepos=0), dict(kind="matchreq", name="rsid", rqpos=0, len=1),
                       dict(kind="nrcconst", name="nrc", type={"dt": "A_UINT32", "bl": bl},
                            values=[1, 2], **({"bitpos": bitpos} if bitpos else {})),
                       V("extra", U8)], "request_len": [1]}


# negative responses whose NRC-CONST does not end on a byte boundary: the encoder skips the
# started byte, the static length counts it
RESPONSES_EXTRA.update({"nrc-4-bits": _nrc(4), "nrc-12-bits": _nrc(12), "nrc-8-bits-at-4": _nrc(8, 4)})
# extents only (C08): an NRC-CONST is left zero by the encoder, such a PDU does not decode
LENGTH_ONLY_RESPONSES = {k: RESPONSES_EXTRA[k] for k in ("nrc-response", "nrc-4-bits", "nrc-12-bits",
                                                         "nrc-8-bits-at-4")}
RESPONSES = {
    "matching-request": {"params": [C("sid", 0x62, bytepos=0),
                                    dict(kind="matchreq", name="echo", rqpos=1, len=2),
                                    V("a", U8), TAIL], "request_len": [2, 3, 4]},
}


# descriptions that only make sense for decoding (an NRC-CONST is not written by the encoder)
DECODE_ONLY_RESPONSES = RESPONSES_EXTRA


# ---------------------------------------------------------------------------
# symbolic values for a spec
# ---------------------------------------------------------------------------
def gen_params(sx, params, path, shape, prop, omit=()):
    vals = {}
    for p in params:
        nm = p["name"]
        q = f"{path}.{nm}" if path else nm
        if p["kind"] == "value":
            if nm in omit:
                continue
            vals[nm] = gen_dop(sx, p["dop"], q, shape, prop)
        elif p["kind"] == "system" and not shape.get("clock"):
            vals[nm] = gen_dop(sx, p["dop"], q, shape, prop)
        elif p["kind"] == "lengthkey":
            if shape["length"] is not None:
                vals[nm] = shape["length"]
        elif p["kind"] == "tablestruct":
            row = shape["row"]
            key = [q for q in params if q["kind"] == "tablekey" and q["id"] == p["key"]][0]
            r = [r for r in key["table"]["rows"] if r["name"] == row][0]
            if r.get("structure"):
                vals[nm] = (row, gen_params(sx, r["structure"]["params"], q + "." + row, shape, prop))
            else:
                vals[nm] = (row, gen_dop(sx, r["dop"], q + "." + row, shape, prop))
    return vals


def gen_dop(sx, d, path, shape, prop):
    k = d.get("complex")
    nm = path.replace(".", "_").replace("[", "_").replace("]", "")
    if k == "dtc":
        return sx.int(nm, 0, (1 << d["bl"]) - 1)
    if k == "envdatadesc":
        out = {}
        for e in d["datas"]:
            out.update(gen_params(sx, e["params"], path + "." + e["name"], shape, prop))
        return out
    if k is None and d["dt"] == "A_BYTEFIELD":
        return sx.bytes(nm, shape.get("blen", 1))
    if k is None:
        if d.get("dct") == "paramlen":
            bl = shape["length"] if shape["length"] is not None else 24
        else:
            bl = d["bl"]
        lim = 1 << (bl + 1)
        v = sx.int(nm, -lim, lim)
        if prop in ("C01", "C02", "C03", "C08"):
            sx.assume(odxref.int_domain(d["dt"], d.get("enc"), bl, v))
        return v
    if k == "structure":
        return gen_params(sx, d["params"], path, shape, prop)
    if k in ("staticfield", "dynlenfield", "eopfield", "endmarkerfield"):
        n = shape["count"] if (k != "staticfield" or "count" in shape) else d["count"]
        return [gen_params(sx, d["structure"]["params"], f"{path}[{i}]", shape, prop)
                for i in range(n)]
    if k == "mux":
        cname = shape["case"]
        st = None
        for c in d["cases"]:
            if c["name"] == cname:
                st = c.get("structure")
        if d.get("default") and d["default"]["name"] == cname:
            st = d["default"].get("structure")
        return (cname, gen_params(sx, st["params"], path + "." + cname, shape, prop) if st else {})
    raise ValueError(k)


# ---------------------------------------------------------------------------
# reference layout
# ---------------------------------------------------------------------------
def _mark(env, pos, bitpos, nbits, hl):
    """remember bits that a decoder need not reproduce (constants, multiplexer keys of a range)"""
    n = (bitpos + nbits + 7) // 8
    m = ((1 << nbits) - 1) << bitpos
    for i in range(n):
        kk = n - 1 - i if hl else i
        env["const_bits"][pos + i] = env["const_bits"].get(pos + i, 0) | ((m >> (8 * kk)) & 0xFF)


def ref_params(p, origin, cursor, params, vals, at_end, env):
    """lays the parameters out; returns the first byte after the right-most parameter"""
    end = cursor
    for prm in params:  # explicit length keys are known before their users are laid out
        if prm["kind"] == "lengthkey" and vals.get(prm["name"]) is not None:
            env.setdefault("lengths", {})[prm["id"]] = vals[prm["name"]]
    for i, prm in enumerate(params):
        last = i == len(params) - 1
        pos = origin + prm["bytepos"] if prm.get("bytepos") is not None else cursor
        bitpos = prm.get("bitpos") or 0
        k = prm["kind"]
        nm = prm["name"]
        if k == "const" and prm["type"]["dt"] == "A_BYTEFIELD":
            # a byte-field constant (fixed length or MIN-MAX-LENGTH): laid out like a value
            n = ref_dop(p, pos, bitpos, prm["type"], bytes.fromhex(prm["value"]), at_end and last, env)
            if "const_bits" in env:
                for i in range(n):
                    env["const_bits"][pos + i] = 0xFF
        elif k == "const":
            t = prm["type"]
            n = p.put_field(pos, bitpos, t["bl"], prm["value"], t.get("hl") in (None, True))
            if "const_bits" in env:  # remember which bits are coded constants
                m = ((1 << t["bl"]) - 1) << bitpos
                for i in range(n):
                    kk = n - 1 - i if t.get("hl") in (None, True) else i
                    env["const_bits"][pos + i] = env["const_bits"].get(pos + i, 0) | ((m >> (8 * kk)) & 0xFF)
        elif k == "value":
            v = vals.get(nm)
            if v is None:
                if prm.get("default") is None:
                    raise odxref.Reject(f"required parameter {nm} missing")
                v = prm["default"]
            env.setdefault("journal", {})[nm] = v
            n = ref_dop(p, pos, bitpos, prm["dop"], v, at_end and last, env)
        elif k == "physconst":
            n = ref_dop(p, pos, bitpos, prm["dop"], prm["value"], at_end and last, env)
        elif k == "system":
            v = vals.get(nm)
            if v is None:
                v = env["clock"][prm["sysparam"]]
            n = ref_dop(p, pos, bitpos, prm["dop"], v, at_end and last, env)
        elif k == "reserved":
            n = (bitpos + prm["bl"] + 7) // 8
            p.ensure(pos + n)
        elif k == "nrcconst":
            # NRC-CONST parameters are not written by the encoder (an overlapping VALUE parameter
            # would): the bits stay zero
            n = (bitpos + prm["type"]["bl"] + 7) // 8
            p.ensure(pos + n)
        elif k == "matchreq":
            rq = env["request"]
            if len(rq) < prm["rqpos"] + prm["len"]:
                raise odxref.Reject("request too short")
            n = p.put_bytes(pos, rq[prm["rqpos"]:prm["rqpos"] + prm["len"]])
        elif k == "lengthkey":
            d = prm["dop"]
            L = vals.get(nm)
            if L is None:
                # implicit key: the smallest number of whole bytes that holds the value
                user = [q for q in params if q["kind"] == "value" and
                        q["dop"].get("length_key") == prm["id"]][0]
                v = vals[user["name"]]
                L = 0
                for nb in (3, 2, 1):
                    if v < (1 << (8 * (nb - 1))):
                        continue
                    L = 8 * nb
                    break
            n = p.put_field(pos, bitpos, d["bl"], L, d.get("hl") in (None, True))
            env.setdefault("lengths", {})[prm["id"]] = L
        elif k == "tablekey":
            ts = [q for q in params if q["kind"] == "tablestruct" and q["key"] == prm["id"]]
            row = vals[ts[0]["name"]][0] if ts else vals.get(nm)
            if prm.get("row") is not None and row != prm["row"]:
                raise odxref.Reject("row differs from TABLE-ROW-REF")
            r = [r for r in prm["table"]["rows"] if r["name"] == row]
            if not r:
                raise odxref.Reject("unknown table row")
            kd = prm["table"]["key_dop"]
            n = p.put_field(pos, bitpos, kd["bl"], r[0]["key"], kd.get("hl") in (None, True))
            if "const_bits" in env and prm.get("row") is not None:
                _mark(env, pos, bitpos, kd["bl"], kd.get("hl") in (None, True))  # fixed row
        elif k == "tablestruct":
            key = [q for q in params if q["kind"] == "tablekey" and q["id"] == prm["key"]][0]
            row, rv = vals[nm]
            r = [r for r in key["table"]["rows"] if r["name"] == row][0]
            if r.get("structure"):
                n = ref_dop(p, pos, 0, dict(complex="structure", params=r["structure"]["params"]), rv,
                            at_end and last, env)
            else:
                n = ref_dop(p, pos, bitpos, r["dop"], rv, at_end and last, env)
        else:
            raise ValueError(k)
        cursor = pos + n
        end = max(end, cursor)
    return end


def _applicable_env_datas(d, dtc):
    """reference: the ALL-VALUE environment data (if any) followed by the first one listing dtc"""
    out = [e for e in d["datas"] if e.get("all")][:1]
    for e in d["datas"]:
        if not e.get("all") and s_or(*[dtc == x for x in e.get("dtcs", [])]):
            out.append(e)
            break
    return out


def ref_dop(p, pos, bitpos, d, v, at_end, env):
    k = d.get("complex")
    if k == "envdatadesc":
        dtc = env["journal"][d["param"]]
        cur = pos
        for e in _applicable_env_datas(d, dtc):
            cur += ref_dop(p, cur, 0, dict(complex="structure", params=e["params"]), v, False, env)
        p.ensure(cur)
        env.setdefault("env_applicable", {})[id(d)] = True
        return cur - pos
    if k == "dtc":
        if not s_or(*[v == x["code"] for x in d["dtcs"]]):
            raise odxref.Reject("trouble code is not described")
        return p.put_field(pos, bitpos, d["bl"], v, d.get("hl") in (None, True))
    if k is None and d["dt"] == "A_BYTEFIELD" and d.get("dct") == "minmax":
        if bitpos or len(v) < d["min"] or (d.get("max") is not None and len(v) > d["max"]):
            raise odxref.Reject("length outside MIN-LENGTH..MAX-LENGTH")
        term = {"ZERO": [0], "HEX-FF": [0xFF], "END-OF-PDU": []}[d["term"]]
        if term:
            hits = [v[o] == term[0] for o in range(d["min"], len(v))]
            if hits and s_or(*hits):
                raise odxref.Reject("value contains the termination byte")
        n = p.put_bytes(pos, v)
        if d["term"] == "END-OF-PDU" and not at_end:
            raise odxref.Reject("END-OF-PDU termination away from the end")
        if not at_end and len(v) != d.get("max"):
            n += p.put_bytes(pos + n, term)
        return n
    if k is None and d["dt"] == "A_BYTEFIELD":
        if d.get("dct") == "leading":
            if len(v) >= (1 << d["bl"]):
                raise odxref.Reject("length does not fit")
            n = p.put_field(pos, bitpos, d["bl"], len(v), d.get("hl") in (None, True))
            return n + p.put_bytes(pos + n, v)
        if 8 * len(v) != d["bl"] or bitpos:
            raise odxref.Reject("byte field length")
        return p.put_bytes(pos, v)
    if k is None:
        bl = d["bl"] if d.get("dct") != "paramlen" else env["lengths"][d["length_key"]]
        if bl == 0:
            if v != 0:
                raise odxref.Reject("non-zero value in a zero-length field")
            p.ensure(pos)
            return 0
        dom = odxref.int_domain(d["dt"], d.get("enc"), bl, v)
        if not dom:
            raise odxref.Reject("value not representable")
        raw = odxref.int_raw(d["dt"], d.get("enc"), bl, v)
        return p.put_field(pos, bitpos, bl, raw, d.get("hl") in (None, True))
    if bitpos:
        raise odxref.Reject("complex DOP at a bit position")
    if k == "structure":
        end = ref_params(p, pos, pos, d["params"], v, at_end, env)
        n = end - pos
        if d.get("byte_size") is not None:
            if n > d["byte_size"]:
                raise odxref.Reject("structure exceeds BYTE-SIZE")
            n = d["byte_size"]
            for i in range(pos, pos + n):
                p.ensure(i + 1)
                p.mask[i] |= 0  # padding bytes are zero
        p.ensure(pos + n)
        return n
    st = d.get("structure")
    sd = dict(complex="structure", params=st["params"]) if st else None
    if k == "staticfield":
        if len(v) != d["count"]:
            raise odxref.Reject("number of items differs from FIXED-NUMBER-OF-ITEMS")
        ibs = d["item_byte_size"]
        for i, item in enumerate(v):
            n = ref_dop(p, pos + i * ibs, 0, sd, item, False, env)
            if n > ibs:
                raise odxref.Reject("item exceeds ITEM-BYTE-SIZE")
        p.ensure(pos + len(v) * ibs)
        return len(v) * ibs
    if k == "dynlenfield":
        cd = d["count_dop"]
        cn = p.put_field(pos + d.get("count_bytepos", 0), d.get("count_bitpos") or 0, cd["bl"], len(v),
                         cd.get("hl") in (None, True))
        if len(v) >= (1 << cd["bl"]):
            raise odxref.Reject("count does not fit")
        cur = pos + d["offset"]
        p.ensure(cur)
        for i, item in enumerate(v):
            cur += ref_dop(p, cur, 0, sd, item, at_end and i == len(v) - 1, env)
        return cur - pos
    if k == "eopfield":
        cur = pos
        for i, item in enumerate(v):
            cur += ref_dop(p, cur, 0, sd, item, at_end and i == len(v) - 1, env)
        p.ensure(cur)
        return cur - pos
    if k == "endmarkerfield":
        cur = pos
        for i, item in enumerate(v):
            cur += ref_dop(p, cur, 0, sd, item, at_end and i == len(v) - 1, env)
        if not at_end:
            # the termination value follows the last item; it is NOT consumed by the field (the
            # description covers it with a parameter of its own, cf. the repo's test-suite)
            ed = d["end_dop"]
            p.put_field(cur, 0, ed["bl"], d["end_value"], True)
            p.mask[cur] = 0
        p.ensure(cur)
        return cur - pos
    if k == "mux":
        cname, cval = v
        key = None
        st = None
        for c in d["cases"]:
            if c["name"] == cname:
                key, st = c["lo"], c.get("structure")
        if key is None:
            if d.get("default") and d["default"]["name"] == cname:
                # any key that no case claims selects the default case; the smallest one is used
                key = next(k for k in range(1 << d["key_dop"]["bl"])
                           if not any(c["lo"] <= k <= c["hi"] for c in d["cases"]))
                st = d["default"].get("structure")
            else:
                raise odxref.Reject("unknown case")
        kd = d["key_dop"]
        n = d.get("key_bytepos", 0) + p.put_field(pos + d.get("key_bytepos", 0),
                                                  d.get("key_bitpos") or 0, kd["bl"], key, True)
        if "const_bits" in env:  # any key of the case's range selects the case: not canonical
            _mark(env, pos + d.get("key_bytepos", 0), d.get("key_bitpos") or 0, kd["bl"], True)
        if st is not None:
            m = ref_dop(p, pos + d["bytepos"], 0, dict(complex="structure", params=st["params"]),
                        cval, at_end, env)
            n = max(n, d["bytepos"] + m)
        return n
    raise ValueError(k)


def expected(params, vals):
    """values a decoder must report: supplied values + constants + defaults"""
    out = {}
    for prm in params:
        k, nm = prm["kind"], prm["name"]
        if k == "const":
            out[nm] = prm["value"]
        elif k == "value":
            v = vals.get(nm)
            if prm["dop"].get("complex") == "envdatadesc":
                d = prm["dop"]
                exp = {}
                for e in _applicable_env_datas(d, vals[d["param"]]):
                    exp.update(expected(e["params"], v))
                out[nm] = exp
                continue
            out[nm] = _exp_dop(prm["dop"], prm.get("default") if v is None else v)
        elif k == "physconst":
            out[nm] = prm["value"]
        elif k == "system":
            out[nm] = vals.get(nm) if vals.get(nm) is not None else None
        elif k == "lengthkey":
            out[nm] = vals.get(nm)
        elif k == "tablekey":
            ts = [q for q in params if q["kind"] == "tablestruct" and q["key"] == prm["id"]]
            out[nm] = vals[ts[0]["name"]][0]
        elif k == "tablestruct":
            key = [q for q in params if q["kind"] == "tablekey" and q["id"] == prm["key"]][0]
            row, rv = vals[nm]
            r = [r for r in key["table"]["rows"] if r["name"] == row][0]
            out[nm] = (row, expected(r["structure"]["params"], rv) if r.get("structure") else rv)
        elif k == "reserved":
            out[nm] = None  # undescribed bits (or a covered termination value)
        elif k == "matchreq":
            out[nm] = None  # compared separately
        elif k == "nrcconst":
            out[nm] = None
    return out


def _exp_dop(d, v):
    k = d.get("complex")
    if k is None or k == "dtc":
        return v
    if k == "structure":
        return expected(d["params"], v)
    if k == "mux":
        cname, cval = v
        st = None
        for c in d["cases"]:
            if c["name"] == cname:
                st = c.get("structure")
        if d.get("default") and d["default"]["name"] == cname:
            st = d["default"].get("structure")
        return (cname, expected(st["params"], cval) if st else {})
    return [expected(d["structure"]["params"], item) for item in v]


def require_same(sx, got, want, label, path=""):
    if isinstance(want, dict):
        sx.require(isinstance(got, dict), label)
        for k, w in want.items():
            if w is None:
                continue
            sx.require(k in got, label)
            require_same(sx, got[k], w, label, f"{path}.{k}")
        return
    if isinstance(want, tuple):
        sx.require(isinstance(got, tuple) and len(got) == 2 and got[0] == want[0], label)
        require_same(sx, got[1], want[1], label, path)
        return
    if hasattr(got, "trouble_code"):
        got = got.trouble_code
    if isinstance(want, list):
        sx.require(isinstance(got, list) and len(got) == len(want), label)
        for i, (g, w) in enumerate(zip(got, want)):
            require_same(sx, g, w, label, f"{path}[{i}]")
        return
    if isinstance(want, (bytes, bytearray)) or isinstance(got, (bytes, bytearray)):
        sx.require(s_and(len(got) == len(want), core.frozen(got) == core.frozen(want)), label)
        return
    sx.require(got == want, label)


# ---------------------------------------------------------------------------
# harness
# ---------------------------------------------------------------------------
# descriptions used by single harnesses only (not part of the common catalogue)
TBL_EMPTY_ROW = dict(TBL, name="tbl_e", rows=TBL["rows"] + [{"name": "r9", "key": 9}])
EXTRA_REQUESTS = {
    # a length key whose DOP does not convert every coded value (limits 0..24)
    "length-key-limited-dop": {"params": [SID, dict(kind="lengthkey", name="lk", id="LKA", dop=dict(
        dt="A_UINT32", bl=8, ptype="A_UINT32",
        cm={"cat": "LINEAR", "scales": [{"num": [0, 1], "den": [1], "lo": 0, "hi": 24}]})),
        V("data", dict(dt="A_UINT32", dct="paramlen", length_key="LKA")), TAIL]},
    # a table row that references neither a DOP nor a structure (decoding only)
    "table-empty-row": {"params": [SID, dict(kind="tablekey", name="tk", id="TK9", table=TBL_EMPTY_ROW),
                                   dict(kind="tablestruct", name="ts", key="TK9"), TAIL]},
    # the end-marker DOP does not accept every internal value (a text table over 128..255):
    # probing an item whose first byte is below 128 is a decode error in strict mode and a warning
    # in lenient mode; the field is the last object and ends with the PDU
    "endmarker-field-limited-end-dop": {"params": [SID, V("f", dict(
        complex="endmarkerfield",
        end_dop=dict(dt="A_UINT32", bl=8, ptype="A_UNICODE2STRING",
                     cm={"cat": "TEXTTABLE", "scales": [{"lo": 255, "hi": 255, "const": "end"},
                                                        {"lo": 128, "hi": 254, "const": "more"}]}),
        end_value=255, structure=dict(params=[V("x", U8)])))]},
    # coded constants that are not numbers (a byte field, a string) behind a value: a PDU with
    # other bytes there is a mismatch (warning in odxtools), never a foreign exception
    "const-bytefield": {"params": [SID, V("a", U8), dict(kind="const", name="magic",
                                                         type={"dt": "A_BYTEFIELD", "bl": 16},
                                                         value="beef"), TAIL]},
    # a VALUE parameter whose PHYSICAL-DEFAULT-VALUE is present but *empty* (a byte field of
    # length 0): it has a default, so it is not required and can be omitted
    "default-empty-bytes": {"params": [SID, V("d", dict(dt="A_BYTEFIELD", dct="leading", bl=8),
                                               default=""), V("b", U8), TAIL]},
    # the last object is a coded constant of a MIN-MAX-LENGTH type shorter than its maximum: at the
    # end of the PDU it carries no terminator, neither in the encoding nor in the constant prefix
    "const-minmax-last": {"params": [SID, V("a", U8), dict(
        kind="const", name="magic", value="1234",
        type={"dt": "A_BYTEFIELD", "dct": "minmax", "min": 1, "max": 4, "term": "ZERO"})]},
    "const-minmax-only": {"params": [SID, dict(
        kind="const", name="magic", value="1234",
        type={"dt": "A_BYTEFIELD", "dct": "minmax", "min": 1, "max": 4, "term": "HEX-FF"})]},
    "const-string": {"params": [SID, V("a", U8), dict(kind="const", name="magic",
                                                      type={"dt": "A_ASCIISTRING", "bl": 16},
                                                      value="OK"), TAIL]},
}


def build_composite(cfg):
    import odxtools.request  # noqa
    import odxtools.isotp_state_machine  # noqa
    spec = ({**COMPOSITES, **EXTRA_REQUESTS} if cfg["what"] == "request" else
            {**RESPONSES, **DECODE_ONLY_RESPONSES})[cfg["name"]]
    b = build.Builder()
    obj = b.request(spec) if cfg["what"] == "request" else b.response(spec)
    b.resolve()
    return {"obj": obj, "spec": spec}


def run_composite(sx, cfg, env):
    import warnings
    from odxtools.exceptions import OdxError
    from odxtools.decodestate import DecodeState
    obj, spec = env["obj"], env["spec"]
    prop = cfg["prop"]
    shape = cfg["shape"]
    vals = gen_params(sx, spec["params"], "", shape, prop, omit=spec.get("omit", ()))
    renv = {}
    kwargs = {}
    restore = None
    if spec.get("clock"):
        import odxtools.parameters.systemparameter as spm
        clk = {"SECOND": sx.int("clk_second", 0, 59), "MINUTE": sx.int("clk_minute", 0, 59),
               "HOUR": sx.int("clk_hour", 0, 23), "DAY": sx.int("clk_day", 1, 31),
               "MONTH": sx.int("clk_month", 1, 12), "YEAR": sx.int("clk_year", 1, 9999)}
        clk["CENTURY"] = clk["YEAR"] // 100
        renv["clock"] = clk

        class _Now:
            second, minute, hour = clk["SECOND"], clk["MINUTE"], clk["HOUR"]
            day, month, year = clk["DAY"], clk["MONTH"], clk["YEAR"]

        class _DT:
            @staticmethod
            def now():
                return _Now()

        restore = (spm, spm.datetime)
        spm.datetime = _DT
    try:
        return _run_composite(sx, cfg, env, obj, spec, prop, shape, vals, renv, kwargs)
    finally:
        if restore:
            restore[0].datetime = restore[1]


def _run_composite(sx, cfg, env, obj, spec, prop, shape, vals, renv, kwargs):
    import warnings
    from odxtools.exceptions import OdxError
    from odxtools.decodestate import DecodeState
    if cfg["what"] == "response":
        rq = sx.bytes("request", shape["request_len"])
        renv["request"] = rq
        kwargs["coded_request"] = rq
    # reference first (it is independent of the implementation)
    try:
        rp = odxref.Pdu()
        ref_params(rp, 0, 0, spec["params"], vals, True, renv)
        ref_ok = True
    except odxref.Reject:
        rp, ref_ok = None, False

    if prop == "C03":
        if not ref_ok or rp.overlap:
            sx.cover("no-reference")
            return
        msg = rp.result()
        sx.observe("msg", msg)
        try:
            dec = obj.decode(msg)
        except Exception as e:  # noqa: BLE001
            sx.observe("decode-exception", type(e).__name__)
            sx.fail("canonical-pdu-decodes")
            return
        try:
            if cfg["what"] == "request":
                pdu2 = obj.encode(**dec)
            else:
                pdu2 = obj.encode(coded_request=kwargs["coded_request"], **dec)
        except Exception as e:  # noqa: BLE001
            sx.observe("encode-exception", type(e).__name__)
            sx.fail("decoded-values-encode")
            return
        sx.cover("accepted")
        sx.require(len(pdu2) == len(msg), "decode-then-encode-reproduces-the-pdu")
        sx.require(core.frozen(pdu2) == msg, "decode-then-encode-reproduces-the-pdu")
        return

    with warnings.catch_warnings(record=True) as wlist:
        warnings.simplefilter("always")
        try:
            if cfg["what"] == "request":
                pdu = obj.encode(**vals)
            else:
                pdu = obj.encode(coded_request=kwargs["coded_request"], **vals)
        except OdxError as e:
            sx.cover("rejected")
            sx.observe("outcome", "rejected")
            if prop == "C02" and ref_ok:
                sx.fail("representable-assignment-is-encoded")
            return
        except Exception as e:  # noqa: BLE001
            sx.observe("outcome", "foreign:" + type(e).__name__)
            if prop == "C04":
                sx.fail("rejection-uses-the-library-error-type")
            return
    sx.cover("accepted")
    sx.observe("pdu", core.frozen(pdu))
    overlap_warned = any("verlap" in str(w.message) for w in wlist)
    want = expected(spec["params"], vals)
    for prm in spec["params"]:
        if prm["kind"] == "system" and vals.get(prm["name"]) is None and "clock" in renv:
            want[prm["name"]] = renv["clock"][prm["sysparam"]]  # derived from the (stubbed) clock

    if prop in ("C01", "C04"):
        ds = DecodeState(coded_message=core.frozen(pdu))
        try:
            dec = obj.decode_from_pdu(ds)
        except Exception as e:  # noqa: BLE001
            sx.observe("decode-exception", type(e).__name__)
            sx.fail("own-pdu-decodes")
            return
        if cfg["name"] not in ("overlap", "overlap-three"):  # overlapping parameters cannot both come back
            require_same(sx, dec, want, "roundtrip:values")
        if cfg["what"] == "response":
            sx.cover("echo")
        if cfg["name"] not in ("out-of-order", "overlap", "overlap-three", "reserved-shares-byte"):
            sx.require(ds.cursor_byte_position == len(pdu), "decode-consumes-whole-pdu")

    if prop == "C02":
        sx.require(ref_ok, "accepted-assignment-is-representable")
        if ref_ok:
            wantpdu = rp.result()
            sx.require(len(pdu) == len(wantpdu), "pdu-length-as-specified")
            sx.require(core.frozen(pdu) == wantpdu, "pdu-bit-exact")
            sx.require(overlap_warned == rp.overlap, "overlap-warning-iff-bits-claimed-twice")
            if not rp.overlap:
                dec = obj.decode(wantpdu)
                require_same(sx, dec, want, "reference-pdu-decodes-to-values")

    if prop == "C08":
        sbl = obj.get_static_bit_length()
        if sbl is not None:
            sx.require(8 * len(pdu) == sbl, "static-bit-length-matches-encoding")
        if cfg["what"] == "request":
            pre = obj.coded_const_prefix()
        else:
            # (asked for another request of the same length first: the answer depends on the
            # request given, not on an earlier call)
            rq_ = kwargs["coded_request"]
            if rq_ is not None and len(rq_):
                obj.coded_const_prefix(request_prefix=bytes([0x55]) * len(rq_))
            pre = obj.coded_const_prefix(request_prefix=rq_)
        sx.require(len(pre) <= len(pdu), "coded-const-prefix-is-a-prefix")
        sx.require(core.frozen(pdu)[:len(pre)] == core.frozen(pre), "coded-const-prefix-is-a-prefix")
        req_names = sorted(p.short_name for p in obj.required_parameters)
        want_req = sorted(p["name"] for p in spec["params"]
                          if (p["kind"] in ("value", "tablestruct") and p.get("default") is None) or
                          (p["kind"] == "system" and p["sysparam"] not in ODX_SYSPARAMS))
        sx.require(req_names == want_req, "required-parameters-are-the-value-parameters-without-default")
        # the same views on nested structures: free = what a caller may set, required = the free
        # ones without default
        for prm in spec["params"]:
            d = prm.get("dop") or {}
            if prm["kind"] == "value" and d.get("complex") == "structure":
                st = obj.parameters[prm["name"]].dop
                settable = ("value", "lengthkey", "tablekey", "tablestruct", "system")
                want_free = sorted(p["name"] for p in d["params"] if p["kind"] in settable)
                want_r = sorted(p["name"] for p in d["params"]
                                if (p["kind"] in ("value", "tablestruct") and p.get("default") is None) or
                                (p["kind"] == "system" and p["sysparam"] not in ODX_SYSPARAMS))
                sx.require(sorted(p.short_name for p in st.free_parameters) == want_free,
                           "free-parameters-of-a-structure-are-the-settable-ones")
                sx.require(sorted(p.short_name for p in st.required_parameters) == want_r,
                           "required-parameters-of-a-structure-are-those-without-default")


# ASAM ODX 2.2, 7.3.5.4 table 5: the SYSPARAM names a tester must know (spelled exactly so)
ODX_SYSPARAMS = ("TIMESTAMP", "SECOND", "MINUTE", "HOUR", "TIMEZONE", "DAY", "WEEK", "MONTH", "YEAR",
                 "CENTURY", "TESTERID", "USERID")


def run_required(sx, cfg, env):
    """C08: a parameter reported as required makes encoding fail when omitted (for ALL values of
    the others); a parameter not reported required can be omitted"""
    from odxtools.exceptions import OdxError
    obj, spec = env["obj"], env["spec"]
    shape = cfg["shape"]
    vals = gen_params(sx, spec["params"], "", shape, "C08")
    drop = cfg["drop"]
    required = drop in [p.short_name for p in obj.required_parameters]
    free = drop in [p.short_name for p in obj.free_parameters]
    vals.pop(drop, None)
    try:
        obj.encode(**vals)
        ok = True
    except OdxError:
        ok = False
    sx.cover("omitted-ok" if ok else "omitted-rejected")
    sx.require(ok == (not required), "required-iff-omission-makes-encoding-fail")
    sx.observe("ok", ok)
    sx.observe("free", free)


def run_constant(sx, cfg, env):
    """C08: a parameter that is not reported free (constants) cannot be set: supplying any value
    other than its constant is rejected, supplying the constant is accepted"""
    from odxtools.exceptions import OdxError
    obj, spec = env["obj"], env["spec"]
    shape = cfg["shape"]
    vals = gen_params(sx, spec["params"], "", shape, "C08", omit=spec.get("omit", ()))
    prm = [p for p in spec["params"] if p["name"] == cfg["const"]][0]
    free = cfg["const"] in [p.short_name for p in obj.free_parameters]
    sx.require(not free, "constant-is-not-reported-free")
    c = sx.int("c", 0, (1 << 16) - 1)
    vals[cfg["const"]] = c
    try:
        obj.encode(**vals)
        ok = True
    except OdxError:
        ok = False
    sx.cover("accepted" if ok else "rejected")
    sx.require(ok == bool(c == prm["value"]), "non-free-parameter-only-accepts-its-constant")


BAD_SELECTORS = {
    "mux": [{"m": ("nope", {})}, {"m": ("c1", {})}, {"m": ("c1", {"a": 1, "zzz": 2})}, {"m": "c1"},
            {"m": ("c2", {"b": 70000})}, {"m": (None, {})}, {"m": ("c1", None)}],
    "table": [{"ts": ("nope", 1)}, {"ts": ("r1", {"a": 1})}, {"ts": ("r2", {"x": 1})},
              {"ts": "r1"}, {"ts": ("r1", {"a": 1, "b": 2}), "tk": "r2"}, {"ts": ("r2", 70000)}],
    "static-field": [{"f": [{"x": 1, "y": 2}]}, {"f": "ab"}, {"f": [1, 2]},
                     {"f": [{"x": 1, "y": 2}, {"x": 1}]}],
    "dtc": [{"d": "NOPE"}, {"d": "P0500"}, {"d": 2}, {"d": None}],
}


def run_badselector(sx, cfg, env):
    """C04, concrete operands: unknown multiplexer cases / table rows / DTC names, incomplete
    items, contradictory keys.  Outcome: OdxError, or a PDU that decodes to what was asked for."""
    from odxtools.exceptions import OdxError
    obj, spec = env["obj"], env["spec"]
    sel = sx.int("sel", 0, 0)
    sx.assume(sel == 0)
    for i, vals in enumerate(BAD_SELECTORS[cfg["name"]]):
        try:
            pdu = obj.encode(**vals)
        except OdxError:
            sx.cover("rejected")
            continue
        except Exception as e:  # noqa: BLE001
            sx.observe(f"case{i}", f"{vals!r}:{type(e).__name__}")
            sx.require(False, "rejection-uses-the-library-error-type")
            continue
        sx.cover("accepted")
        try:
            dec = obj.decode(bytes(pdu))
            same = True
            for k, v in vals.items():
                g = dec.get(k)
                if hasattr(g, "trouble_code"):
                    same = same and (g.short_name == v or g.trouble_code == v)
                else:
                    same = same and (g == v or (isinstance(v, tuple) and isinstance(g, tuple)
                                                 and g[0] == v[0]))
        except Exception:  # noqa: BLE001
            same = False
        sx.observe(f"case{i}", f"{vals!r}->{bytes(pdu).hex()}")
        sx.require(bool(same), "accepted-selector-comes-back")


UNKNOWN_NESTED = {
    # composite -> (path to a nested dict of the generated values)
    "structure": ["st"], "env-data-then-structure": ["st"], "static-field": ["f", 0],
    "structure-then-positioned": ["st"], "nested-bytesize": ["outer"] if False else None,
}


def run_unknownnested(sx, cfg, env):
    """C04: a value for a parameter that does not exist inside a nested structure / field item is
    rejected like one at the top level, whatever precedes the nested object"""
    from odxtools.exceptions import OdxError
    obj, spec = env["obj"], env["spec"]
    shape = cfg["shape"]
    vals = gen_params(sx, spec["params"], "", shape, "C01")
    if cfg["name"] == "env-data-then-structure":
        sx.assume(vals["d"] == cfg["dtc"])  # 7: only the ALL-VALUE data applies; 1: its own too
    node = vals
    for k in UNKNOWN_NESTED[cfg["name"]]:
        node = node[k]
    node["no_such_parameter"] = 1
    try:
        pdu = obj.encode(**vals)
    except OdxError:
        sx.cover("rejected")
        sx.require(True, "unknown-nested-parameter-is-rejected")
        return
    except Exception as e:  # noqa: BLE001
        sx.observe("exception", type(e).__name__)
        sx.fail("rejection-uses-the-library-error-type")
        return
    sx.observe("pdu", core.frozen(pdu))
    sx.fail("unknown-nested-parameter-is-rejected")


def run_foreigndtc(sx, cfg, env):
    """C04: a DiagnosticTroubleCode OBJECT that does not belong to the DOP (another DOP's, or the
    placeholder the lenient decoder returns) with an arbitrary trouble code: rejected, or the
    encoding decodes to the trouble code that was given"""
    from odxtools.diagnostictroublecode import DiagnosticTroubleCode
    from odxtools.exceptions import OdxError
    from catalogue.build import mk, oid
    obj, spec = env["obj"], env["spec"]
    vals = gen_params(sx, spec["params"], "", cfg["shape"], "C04")
    code = vals["d"]
    sx.assume(s_and(code >= 0, code < (1 << 24)))
    vals["d"] = mk(DiagnosticTroubleCode, odx_id=oid("foreign.dtc"), short_name="DTC_foreign",
                   trouble_code=code, text="foreign", display_trouble_code=None, level=None,
                   is_temporary_raw=None, sdgs=[])
    try:
        pdu = obj.encode(**vals)
    except OdxError:
        sx.cover("rejected")
        sx.require(True, "foreign-dtc:rejected-or-round-trip")
        return
    except Exception as e:  # noqa: BLE001
        sx.observe("exception", type(e).__name__)
        sx.fail("rejection-uses-the-library-error-type")
        return
    sx.cover("accepted")
    try:
        dec = obj.decode(core.frozen(pdu))
    except Exception as e:  # noqa: BLE001
        sx.observe("decode-exception", type(e).__name__)
        sx.fail("own-pdu-decodes")
        return
    sx.require(dec["d"].trouble_code == code, "roundtrip:trouble-code")


FOREIGNDTC_HARNESS = {"build": build_composite, "run": run_foreigndtc, "width": 80,
                      "must_cover": ["rejected", "accepted"]}
UNKNOWNNESTED_HARNESS = {"build": build_composite, "run": run_unknownnested, "width": 80,
                         "must_cover": ["rejected"]}
BADSELECTOR_HARNESS = {"build": build_composite, "run": run_badselector, "width": 80,
                       "must_cover": ["rejected"]}
COMPOSITE_HARNESS = {
    "build": build_composite, "run": run_composite, "width": 80, "must_cover": ["accepted"],
    "limits": {"quick": explore.Limits(max_paths=3000, wall_s=200),
               "thorough": explore.Limits(max_paths=30000, wall_s=900)},
}
CONSTANT_HARNESS = {"build": build_composite, "run": run_constant, "width": 80,
                    "must_cover": ["accepted", "rejected"]}
REQUIRED_HARNESS = {"build": build_composite, "run": run_required, "width": 80,
                    "must_cover": ["omitted-ok", "omitted-rejected"]}


def shapes(spec):
    base = {"clock": True} if spec.get("clock") else {}
    out = [base]
    for key, field in (("counts", "count"), ("cases", "case"), ("lengths", "length"), ("rows", "row"), ("blens", "blen"),
                       ("request_len", "request_len")):
        if key in spec:
            out = [dict(s, **{field: x}) for s in out for x in spec[key]]
    return out


def configs_for(prop, tier, seed):
    out = []
    for what, table in (("request", COMPOSITES), ("response", RESPONSES)):
        for name, spec in table.items():
            for sh in shapes(spec):
                sid = "-".join(f"{k}{v}" for k, v in sh.items()) or "x"
                out.append({"id": f"composite/{what}/{name}/{sid}", "harness": "composite",
                            "what": what, "name": name, "shape": sh, "prop": prop,
                            "build": {"what": what, "name": name}})
    if prop == "C08":
        for name in ("const-minmax-last", "const-minmax-only"):
            out.append({"id": f"composite/request/{name}/x", "harness": "composite",
                        "what": "request", "name": name, "shape": {}, "prop": prop,
                        "build": {"what": "request", "name": name}})
        for name, spec in LENGTH_ONLY_RESPONSES.items():
            for sh in shapes(spec):
                sid = "-".join(f"{k}{v}" for k, v in sh.items()) or "x"
                out.append({"id": f"composite/response/{name}/{sid}", "harness": "composite",
                            "what": "response", "name": name, "shape": sh, "prop": prop,
                            "build": {"what": "response", "name": name}})
        for name, spec in {**COMPOSITES, "default-empty-bytes": EXTRA_REQUESTS["default-empty-bytes"]}.items():
            sh = shapes(spec)[-1]
            for p in spec["params"]:
                if p["kind"] in ("value", "lengthkey", "tablestruct", "system"):
                    out.append({"id": f"required/{name}/drop-{p['name']}", "harness": "required",
                                "what": "request", "name": name, "shape": sh, "drop": p["name"],
                                "prop": prop, "build": {"what": "request", "name": name}})
                if p["kind"] in ("const", "physconst") and name in ("two-values", "physconst-reserved",
                                                                     "out-of-order", "structure"):
                    out.append({"id": f"constant/{name}/{p['name']}", "harness": "constant",
                                "what": "request", "name": name, "shape": sh, "const": p["name"],
                                "prop": prop, "build": {"what": "request", "name": name}})
    return out
