"""C05 - decoding arbitrary bytes is total: it returns or raises DecodeError.

  atomdec    : every catalogue atom (request [SID][val][tail]) x every message length
               0..minlen+2, all message bytes symbolic -> Request.decode
  somersault : the shipped examples/somersault.pdx loaded by the real loader; every message of
               length 0..3 (quick) / 0..4 (thorough) through DiagLayer.decode; the bytes that
               walk the prefix-tree dictionaries are value-forked by the engine
"""
import json
import os
import warnings

from symx import core, explore
from symx.core import s_and, s_or, s_not
from harness import codec_common as cc


def min_len(a):
    """reference: the shortest PDU that still contains every described parameter"""
    pos = 1 if a.get("bytepos") is None else a["bytepos"]
    bitpos = a.get("bitpos") or 0
    tail = 1 if a.get("tail", True) else 0
    dct = a.get("dct", "std")
    if dct == "std":
        return max(1, pos + (bitpos + a["bl"] + 7) // 8 + tail)
    if dct == "minmax":
        two = a["dt"] == "A_UNICODE2STRING"
        tl = 0 if a["term"] == "END-OF-PDU" else (2 if two else 1)
        need = a["min"]
        if tail:
            with_term = a["min"] + tl
            need = with_term if a.get("max") is None else min(with_term, max(a["max"], a["min"]))
            if a.get("max") is not None and a["min"] == a["max"]:
                need = a["min"]
        return pos + need + tail
    if dct == "leading":
        return pos + (bitpos + a["bl"] + 7) // 8 + tail
    raise ValueError(dct)


def run_atomdec(sx, cfg, env):
    from odxtools.exceptions import DecodeError
    rq = env["rq"]
    n = cfg["mlen"]
    msg = sx.bytes("msg", n)
    try:
        res = rq.decode(msg)
    except DecodeError:
        sx.cover("decode-error")
        sx.observe("outcome", "DecodeError")
        sx.require(True, "returns-or-decode-error")
        return
    except Exception as e:  # noqa: BLE001
        sx.observe("outcome", "foreign:" + type(e).__name__)
        sx.fail("only-decode-error-escapes")
        return
    sx.cover("returned")
    sx.observe("outcome", "returned")
    sx.require(n >= cfg["minlen"], "short-pdu-is-rejected")
    v = res.get("val")
    if isinstance(v, (bytes, bytearray)):
        v = core.frozen(v)
    sx.observe("val", v)


def run_compdec(sx, cfg, env):
    """arbitrary bytes through the nested descriptions (structures, fields, multiplexer, tables,
    DTC, length keys)"""
    from odxtools.exceptions import DecodeError
    import warnings
    obj = env["obj"]
    msg = sx.bytes("msg", cfg["mlen"])
    try:
        with warnings.catch_warnings():
            warnings.simplefilter("ignore")
            res = obj.decode(msg)
    except DecodeError:
        sx.cover("decode-error")
        sx.observe("outcome", "DecodeError")
        sx.require(True, "returns-or-decode-error")
        return
    except Exception as e:  # noqa: BLE001
        sx.observe("outcome", "foreign:" + type(e).__name__)
        sx.fail("only-decode-error-escapes")
        return
    sx.cover("returned")
    sx.require(True, "returns-or-decode-error")
    sx.observe("outcome", "returned")
    sx.observe("keys", sorted(res.keys()))
    if cfg["what"] != "request":
        return
    # "never completed with invented values": every returned interpretation must be justified by
    # the bytes - laying the returned values out with the reference gives the message back on all
    # described bits, and needs no more bytes than the message has
    from models import odxref
    spec = env["spec"]
    try:
        rp = odxref.Pdu()
        renv = {"const_bits": {}}
        _cp.ref_params(rp, 0, 0, spec["params"], _plain(res), True, renv)
    except (odxref.Reject, KeyError, TypeError, IndexError, AttributeError, ValueError) as e:
        sx.cover("reference-cannot-lay-out")
        if cfg["name"] in STRICT_SHAPE and (isinstance(e, KeyError) or (
                isinstance(e, odxref.Reject) and "required parameter" in str(e))):
            # the returned dictionary lacks a parameter that the description prescribes for the
            # selector value it returned next to it (environment data chosen by another DTC)
            sx.fail("returned-structure-fits-the-returned-selector")
        return
    if rp.overlap or cfg["name"] in ("overlap", "overlap-three"):
        return
    sx.cover("justified")
    # (the bytes of the reference layout that carry no described bit at all - the padding between
    # the counter of an empty field and its OFFSET - are not "values")
    need = max([i + 1 for i in range(len(rp.bytes)) if rp.mask[i]] or [0])
    sx.require(need <= len(msg), "returned-values-need-no-more-bytes-than-the-message-has")
    for i in range(min(len(rp.bytes), len(msg))):
        # a coded constant that does not match only warns in odxtools: constants are not compared
        m = rp.mask[i] & ~renv["const_bits"].get(i, 0) & 0xFF
        if m:
            sx.require((msg[i] & m) == (rp.bytes[i] & m), "returned-values-are-what-the-bytes-say")


# descriptions for which the reference lays out EVERY dictionary the decoder may return (no
# defaults, no optional keys): a missing key there is a finding, not a limit of the reference
STRICT_SHAPE = ("env-data-in-field", "env-data-no-common", "env-data-then-structure")


def _plain(v):
    if hasattr(v, "trouble_code"):
        return v.trouble_code
    if isinstance(v, dict):
        return {k: _plain(x) for k, x in v.items()}
    if isinstance(v, tuple):
        return tuple(_plain(x) for x in v)
    if isinstance(v, list):
        return [_plain(x) for x in v]
    return v


def build_snoop(cfg):
    env = build_somersault(cfg)
    import odxtools.cli.snoop  # noqa  (imported before the shims are installed)
    return env


def run_snoop(sx, cfg, env):
    """the snoop tool's telegram handler: a (concrete) tester request followed by an ARBITRARY
    ECU telegram, and an arbitrary tester telegram - it catches DecodeError only, so nothing may
    escape"""
    import contextlib
    import io
    import odxtools.cli.snoop as snoop
    snoop.odx_diag_layer = env["layer"]
    snoop.ecu_rx_id, snoop.ecu_tx_id = 0x7B0, 0x7B8
    snoop.last_request = None
    msg = sx.bytes("msg", cfg["mlen"])
    if cfg.get("first") is not None:
        sx.assume(msg[0] == cfg["first"])
    try:
        with contextlib.redirect_stdout(io.StringIO()):
            if cfg["who"] == "ecu":
                snoop.handle_telegram(0x7B0, bytes.fromhex(cfg["request"]))
                snoop.handle_telegram(0x7B8, msg)
            else:
                snoop.handle_telegram(0x7B0, msg)
    except Exception as e:  # noqa: BLE001
        sx.observe("outcome", "escaped:" + type(e).__name__)
        sx.fail("snoop-handler-never-raises")
        return
    sx.cover("handled")
    sx.require(True, "snoop-handler-never-raises")
    sx.observe("outcome", "handled")


def build_somersault(cfg):
    import odxtools
    import odxtools.isotp_state_machine  # noqa
    warnings.simplefilter("ignore")
    db = odxtools.load_pdx_file("/repo/examples/somersault.pdx")
    return {"db": db, "layer": db.ecus[cfg["layer"]]}


def _summ(m):
    return {"service": m.service.short_name, "coding_object": m.coding_object.short_name,
            "params": sorted(m.param_dict.keys())}


def run_somersault(sx, cfg, env):
    from odxtools.exceptions import DecodeError
    layer = env["layer"]
    n = cfg["mlen"]
    msg = sx.bytes("msg", n)
    if cfg.get("first") is not None:
        sx.assume(msg[0] == cfg["first"])
    if cfg.get("second_hi") is not None:
        sx.assume(msg[1] >> 4 == cfg["second_hi"])
    if cfg.get("not_first"):
        sx.assume(s_and(*[msg[0] != b for b in cfg["not_first"]]))
    try:
        if cfg["entry"] == "decode":
            res = layer.decode(msg)
        else:
            req = bytes.fromhex(cfg["request"])
            res = layer.decode_response(msg, req)
    except DecodeError:
        sx.cover("decode-error")
        sx.observe("outcome", "DecodeError")
        sx.require(True, "returns-or-decode-error")
        return
    except Exception as e:  # noqa: BLE001
        sx.observe("outcome", "foreign:" + type(e).__name__)
        sx.fail("only-decode-error-escapes")
        return
    sx.cover("returned")
    sx.require(True, "returns-or-decode-error")
    sx.observe("outcome", [_summ(m) for m in res])


def _own_layers():
    from harness.c06 import C, V, MR, NRC, rq
    return {
        # two coding objects of ONE service accept the same bytes (overlapping NRC-CONST lists):
        # whatever the layer makes of it, it is a result or the decode error
        "ambiguous-negatives": {"services": [
            {"name": "A", "request": rq(C("sid", 0x22), V("x")), "pos": [rq(C("sid", 0x62), V("y"))],
             "neg": [rq(C("sid", 0x7F), MR("rsid"), NRC("nrc", [0x11, 0x31])),
                     rq(C("sid", 0x7F), MR("rsid"), NRC("nrc", [0x31, 0x33]), V("extra"))]},
            {"name": "B", "request": rq(C("sid", 0x23), V("x")),
             "pos": [rq(C("sid", 0x63), V("y")), rq(C("sid", 0x63), V("y"), V("z"))]}]},
    }


def build_layers(cfg):
    from harness import c06
    from catalogue import build
    import odxtools.isotp_state_machine  # noqa
    spec = {**c06.LAYERS, **_own_layers()}[cfg["layer"]]
    return {"layer": build.build_layer(spec), "spec": spec}


HARNESSES = {
    "atomdec": {"build": cc.build_atom, "run": run_atomdec, "width": 80,
                "must_cover": ["returned", "decode-error"],
                "limits": {"quick": explore.Limits(max_paths=5000, wall_s=200),
                           "thorough": explore.Limits(max_paths=50000, wall_s=900)}},
    "compdec": {"build": None, "run": run_compdec, "width": 80,
                "must_cover": ["returned", "decode-error"],
                "limits": {"quick": explore.Limits(max_paths=20000, wall_s=300),
                           "thorough": explore.Limits(max_paths=100000, wall_s=1200)}},
    "snoop": {"build": build_snoop, "run": run_snoop, "width": 80, "must_cover": ["handled"],
              "limits": {"quick": explore.Limits(max_paths=20000, wall_s=600),
                         "thorough": explore.Limits(max_paths=200000, wall_s=3000)}},
    "layers": {"build": build_layers, "run": run_somersault, "width": 80,
               "must_cover": ["returned", "decode-error"],
               "limits": {"quick": explore.Limits(max_paths=20000, wall_s=300),
                          "thorough": explore.Limits(max_paths=200000, wall_s=1500)}},
    "somersault": {"build": build_somersault, "run": run_somersault, "width": 80,
                   "must_cover": ["returned", "decode-error"],
                   "limits": {"quick": explore.Limits(max_paths=20000, wall_s=600),
                              "thorough": explore.Limits(max_paths=200000, wall_s=3000)}},
}
STUBS = cc.STUBS
from harness import composite as _cp  # noqa: E402
HARNESSES["compdec"]["build"] = _cp.build_composite


# conversions that can fail arithmetically on particular raw values: non-finite floats into an
# integer physical type, the pole of a rational function, a float that overflows the int range
NUMERIC_TRAPS = [
    dict(cmname="trap-float32-to-int", W=160, dt="A_FLOAT32", enc=None, bl=32, bitpos=0, hl=True, bytepos=None, ptype="A_INT32",
         cm={"cat": "LINEAR", "scales": [{"num": [0, 2], "den": [1]}]}),
    dict(cmname="trap-float-outside-limits", dt="A_FLOAT32", enc=None, bl=32, bitpos=0, hl=True,
         bytepos=None, ptype="A_FLOAT64",
         cm={"cat": "LINEAR", "scales": [{"num": [0, 1], "den": [1], "lo": 0, "hi": 10}]}),
    dict(cmname="trap-ratfunc-pole-4", dt="A_UINT32", enc=None, bl=8, bitpos=0, hl=True, bytepos=None, ptype="A_FLOAT64",
         cm={"cat": "RAT-FUNC", "scales": [{"num": [10], "den": [-4, 1]}]}),
    dict(cmname="trap-ratfunc-pole-0-int", dt="A_INT32", enc=None, bl=8, bitpos=0, hl=True, bytepos=None, ptype="A_INT32",
         cm={"cat": "RAT-FUNC", "scales": [{"num": [100], "den": [0, 1]}]}),
    dict(cmname="trap-ratfunc-pole-float", dt="A_FLOAT32", enc=None, bl=32, bitpos=0, hl=True, bytepos=None, ptype="A_FLOAT64",
         cm={"cat": "RAT-FUNC", "scales": [{"num": [1], "den": [0, 1]}]}),
    # a text table with a default for the *encoding* direction only (COMPU-PHYS-TO-INTERNAL /
    # COMPU-DEFAULT-VALUE): coded values outside all scales have no text and must be rejected
    dict(cmname="trap-texttable-inv-default", dt="A_UINT32", enc=None, bl=8, bitpos=0, hl=True,
         bytepos=None, ptype="A_UNICODE2STRING",
         cm={"cat": "TEXTTABLE", "inv_default": 1,
             "scales": [{"lo": 0, "hi": 0, "const": "off"}, {"lo": 1, "hi": 1, "const": "on"},
                        {"lo": 4, "hi": 9, "const": "range"}]}),
    dict(cmname="trap-texttable-inv-default-12", dt="A_UINT32", enc=None, bl=12, bitpos=3, hl=False,
         bytepos=None, ptype="A_UNICODE2STRING", via_xml=True,
         cm={"cat": "TEXTTABLE", "inv_default": 1,
             "scales": [{"lo": 0, "hi": 0, "const": "off"}, {"lo": 1, "hi": 1, "const": "on"},
                        {"lo": 4, "hi": 9, "const": "range"}]}),
]


def configs(tier, seed):
    out = []
    from harness import c06 as _c06
    for name, spec in {**_c06.LAYERS, **_own_layers()}.items():
        firsts = sorted(_c06.first_bytes(spec))
        for n in range(0, (4 if tier == "quick" else 6)):
            base = {"harness": "layers", "layer": name, "mlen": n, "entry": "decode",
                    "build": {"layer": name}}
            if n >= 2:
                for fb in firsts:
                    out.append(dict(base, id=f"layers/{name}/len{n}/b{fb:02x}", first=fb))
                out.append(dict(base, id=f"layers/{name}/len{n}/other", not_first=firsts))
            else:
                out.append(dict(base, id=f"layers/{name}/len{n}"))
    for what, table in (("request", {**_cp.COMPOSITES, **{k: _cp.EXTRA_REQUESTS[k] for k in ("table-empty-row", "const-bytefield", "const-string",
                                                              "endmarker-field-limited-end-dop")}}),
                        ("response", {**_cp.RESPONSES, **_cp.DECODE_ONLY_RESPONSES})):
        for name in table:
            for n in range(0, (7 if tier == "quick" else 10)):
                if tier == "quick" and name in ("dynlen-field-varitem",
                                                 "endmarker-field-limited-end-dop") and n > 4:
                    continue  # 256 x 16 value-forks per item: thorough tier only
                out.append({"id": f"compdec/{what}/{name}/len{n}", "harness": "compdec", "what": what,
                            "name": name, "mlen": n, "build": {"what": what, "name": name}})
    seen = set()
    for a in cc.atoms(tier, seed) + NUMERIC_TRAPS:
        b = {k: v for k, v in a.items() if k not in ("vlen", "sidx", "slen")}
        key = json.dumps(b, sort_keys=True)
        if key in seen:
            continue
        seen.add(key)
        ml = min_len(b)
        for n in range(0, ml + 3):
            if tier == "quick" and b["dt"] in cc.INT_TYPES and n not in (0, 1, ml - 1, ml, ml + 1):
                continue
            c = dict(b)
            c.update(harness="atomdec", id=f"atomdec/{cc.atom_id(b)}/len{n}", build=b, mlen=n,
                     minlen=ml, tail=b.get("tail", True))
            out.append(c)
    for n in ((1, 2, 3) if tier == "quick" else (0, 1, 2, 3)):
        for req in ("ba00", "3e00", "1001"):
            base = {"harness": "snoop", "layer": "somersault_lazy", "who": "ecu", "request": req,
                    "mlen": n, "build": {"layer": "somersault_lazy"}}
            if n >= 2:
                for fb in (range(256) if n == 2 or tier != "quick" else
                           (0x7F, 0xFA, 0x62, 0x50, 0x7E, 0x00)):
                    out.append(dict(base, id=f"snoop/ecu/{req}/len{n}/b{fb:02x}", first=fb))
            else:
                out.append(dict(base, id=f"snoop/ecu/{req}/len{n}"))
        tb = {"harness": "snoop", "layer": "somersault_lazy", "who": "tester", "mlen": n,
              "build": {"layer": "somersault_lazy"}}
        if n == 2:
            for fb in range(256):
                out.append(dict(tb, id=f"snoop/tester/len{n}/b{fb:02x}", first=fb))
        elif n < 2:
            out.append(dict(tb, id=f"snoop/tester/len{n}"))
    maxlen = 3 if tier == "quick" else 4
    for layer in ("somersault_lazy", "somersault_assiduous"):
        for n in range(0, maxlen + 1):
            if n >= 2:
                # split the space by first byte so that the work spreads over the cores
                for fb in range(256):
                    c = {"id": f"somersault/{layer}/decode/len{n}/b{fb:02x}",
                         "harness": "somersault", "layer": layer, "entry": "decode",
                         "mlen": n, "first": fb, "build": {"layer": layer}}
                    if n >= 3 and (fb in (0x7F, 0x10) or n >= 4):
                        # hot first bytes (global negative responses): split once more
                        for hi in range(16):
                            out.append(dict(c, id=c["id"] + f"/{hi:x}x", second_hi=hi))
                    else:
                        out.append(c)
            else:
                out.append({"id": f"somersault/{layer}/decode/len{n}", "harness": "somersault",
                            "layer": layer, "entry": "decode", "mlen": n,
                            "build": {"layer": layer}})
    return out


BOUNDS = {"quick": {"atomdec": "every atom description x message lengths {0,1,min-1,min,min+1} "
                               "(all lengths 0..min+2 for non-integer types); all bytes symbolic",
                    "somersault": "somersault_lazy.decode, every message of length 0..3"},
          "thorough": {"atomdec": "every atom x every length 0..min+2",
                       "somersault": "both ECU variants, every message of length 0..4"}}
ASSUMPTIONS = ["minimal PDU length per description is computed by the reference (c05.min_len)",
               "string decoding is modelled by codec validity predicates (symx/strings.py): "
               "UTF-8 well-formedness, UTF-16 surrogate pairing / odd length, the five undefined "
               "CP-1252 bytes; cross-checked per path against CPython by the concolic replay"]
