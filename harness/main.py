"""./check <Cxx> [--tier quick|thorough] [--replay file] - single entry point.

exit 0: every obligation explored was discharged (or lies in a listed known finding)
exit 1: VIOLATION property=<id> replay=<path>  (counterexample reproduced on the unpatched library)
exit 2: harness error (divergence between symbolic and concrete run, vacuity, canary, crash)
"""
import argparse
import importlib
import json
import multiprocessing as mp
import os
import sys
import time
import traceback
import warnings

VERIF = os.path.dirname(os.path.dirname(os.path.abspath(__file__)))
sys.path.insert(0, VERIF)
sys.setrecursionlimit(5000)
warnings.simplefilter("ignore")

from symx import core, shims, explore  # noqa: E402
from models import bitstruct_model  # noqa: E402

_MODELS = {}
_ENV_CACHE = {}
_PROFILED = {}


def _model(variant):
    if variant not in _MODELS:
        _MODELS[variant] = bitstruct_model.Model(variant)
    return _MODELS[variant]


def load_findings(prop):
    path = os.path.join(VERIF, "known_findings.json")
    if not os.path.exists(path):
        return []
    data = json.load(open(path))
    return [f for f in data.get("findings", []) if f.get("property") == prop]


def _worker(args):
    prop, idx, cfg, tier = args
    mod = importlib.import_module(f"harness.{prop.lower()}")
    warnings.simplefilter("ignore")
    try:
        hname = cfg["harness"]
        h = mod.HARNESSES[hname]
        key = json.dumps(cfg.get("build", cfg), sort_keys=True, default=str)
        shims.uninstall()
        if (hname, key) not in _ENV_CACHE:
            _ENV_CACHE.clear()
            _ENV_CACHE[(hname, key)] = h["build"](cfg)
        env = _ENV_CACHE[(hname, key)]
        shims.install(_model(cfg.get("backend", "c")), pure_model=_model("py"),
                      extra_modules=env.get("extra_modules") if isinstance(env, dict) else None)
        lim = h.get("limits", {}).get(tier) or explore.Limits()
        findings = [f for f in load_findings(prop) if f.get("harness") == hname]
        # the function inventory (evidence) is collected by a profile hook on the first path of a
        # configuration; a few configurations per harness and worker are enough
        _PROFILED[hname] = _PROFILED.get(hname, 0) + 1
        res = explore.explore_config(h["run"], cfg, env, limits=lim, findings=findings,
                                     width=cfg.get("W", h.get("width", 80)),
                                     concolic=h.get("concolic", True),
                                     collect_functions=_PROFILED[hname] <= 4)
        res["idx"] = idx
        return res
    except BaseException as e:  # noqa: BLE001
        return {"idx": idx, "cfg": cfg, "crash": f"{type(e).__name__}: {e}\n{traceback.format_exc()}"}
    finally:
        shims.uninstall()
        core.Ctx.cur = None


def replay_one(prop, rec):
    """re-run one recorded counterexample without the engine, on the unpatched library"""
    mod = importlib.import_module(f"harness.{prop.lower()}")
    cfg = rec["config"]
    h = mod.HARNESSES[cfg["harness"]]
    env = h["build"](cfg)
    values = explore.unjson(rec["inputs"])
    st, detail, obs, _ = explore.run_concrete(h["run"], cfg, env, values)
    return st, detail, obs


def main(argv=None):
    ap = argparse.ArgumentParser()
    ap.add_argument("prop")
    ap.add_argument("--tier", default=os.environ.get("VERIF_TIER", "quick"),
                    choices=["quick", "thorough"])
    ap.add_argument("--replay")
    ap.add_argument("--jobs", type=int, default=int(os.environ.get("VERIF_JOBS", "16")))
    ap.add_argument("--only", help="substring filter on the configuration id (debugging)")
    ap.add_argument("--no-evidence", action="store_true")
    a = ap.parse_args(argv)
    prop = a.prop.upper()
    if a.tier == "thorough":
        os.environ.setdefault("VERIF_CROSSCHECK", "150")
    seed = int(os.environ.get("VERIF_SEED", "0"))
    z3_seed(seed)

    if a.replay:
        rec = json.load(open(a.replay))
        st, detail, obs = replay_one(prop, rec)
        print(f"replay: status={st} detail={detail}")
        print("observed:", json.dumps(explore.jsonable(obs))[:2000])
        if st == "require:" + rec["label"]:
            print(f"VIOLATION property={prop} replay={a.replay}")
            return 1
        return 0

    t0 = time.time()
    mod = importlib.import_module(f"harness.{prop.lower()}")
    cfgs = mod.configs(a.tier, seed)
    if a.only:
        cfgs = [c for c in cfgs if a.only in c["id"]]
    jobs = [(prop, i, c, a.tier) for i, c in enumerate(cfgs)]
    results = []
    if a.jobs <= 1 or len(jobs) <= 1:
        for j in jobs:
            results.append(_worker(j))
    else:
        results = run_pool(mod, jobs, a.jobs, a.tier)
    results.sort(key=lambda r: r["idx"])
    rc = report(prop, a.tier, seed, mod, cfgs, results, time.time() - t0, write=not a.no_evidence
                and not a.only)
    return rc


def _isolated(job, conn):
    try:
        conn.send(_worker(job))
    except BaseException as e:  # noqa: BLE001
        conn.send({"idx": job[1], "cfg": job[2], "crash": f"{type(e).__name__}: {e}"})
    finally:
        conn.close()


def run_pool(mod, jobs, njobs, tier):
    """process pool that survives a dying worker (a solver crash must not hang the check).
    Phase 1: an executor over all configurations.  If a worker dies the executor breaks; the
    configurations without a result are then re-run, each in a process of its own with a time
    limit, so that only the configuration that kills its process is reported as crashed."""
    import concurrent.futures as cf
    budget = 300
    for h in mod.HARNESSES.values():
        lim = h.get("limits", {}).get(tier)
        if lim is not None:
            budget = max(budget, lim.wall_s + 120)
    results, done = [], set()
    ctx = mp.get_context("fork")
    # whole-run budget and early stop: a change that breaks a property can also make every
    # configuration slow (e.g. lenient mode running on after a dropped length check); the run then
    # ends with what it has found instead of taking hours
    t_start = time.time()
    total_budget = float(os.environ.get("VERIF_BUDGET_S", "1500" if tier == "quick" else "14400"))
    nviol = 0
    stopped = None
    try:
        ex = cf.ProcessPoolExecutor(max_workers=min(njobs, len(jobs)), mp_context=ctx)
        futs = {ex.submit(_worker, j): j for j in jobs}
        try:
            for f in cf.as_completed(futs, timeout=total_budget):
                j = futs[f]
                try:
                    r = f.result()
                    results.append(r)
                    done.add(j[1])
                    nviol += len(r.get("violations", []))
                except cf.process.BrokenProcessPool:
                    pass
                except Exception as e:  # noqa: BLE001
                    results.append({"idx": j[1], "cfg": j[2], "crash": f"{type(e).__name__}: {e}"})
                    done.add(j[1])
                if nviol >= 60:
                    stopped = "stopped early after 60 candidate violations"
                    break
        except cf.TimeoutError:
            stopped = f"whole-run budget of {int(total_budget)}s exhausted"
        if stopped:
            for f in futs:
                f.cancel()
            for p in list(getattr(ex, "_processes", {}).values()):
                p.kill()
            ex.shutdown(wait=False, cancel_futures=True)
        else:
            ex.shutdown(wait=True)
    except cf.process.BrokenProcessPool:
        pass
    if stopped:
        for j in jobs:
            if j[1] not in done:
                results.append({"idx": j[1], "cfg": j[2], "skipped": stopped})
        return results
    rest = [j for j in jobs if j[1] not in done]
    running = []
    attempts = {}
    # a solver crash (z3 segfaults sporadically when an FP query is cancelled) kills the worker:
    # such a configuration is retried up to twice in a process of its own before it is reported

    def died(j, why):
        attempts[j[1]] = attempts.get(j[1], 0) + 1
        if attempts[j[1]] <= 2:
            rest.append(j)
        else:
            results.append({"idx": j[1], "cfg": j[2], "crash": why})

    while rest or running:
        while rest and len(running) < njobs:
            j = rest.pop(0)
            a, b = ctx.Pipe(duplex=False)
            p = ctx.Process(target=_isolated, args=(j, b))
            p.start()
            b.close()
            running.append((j, p, a, time.time()))
        still = []
        for j, p, a, t0 in running:
            if a.poll():
                try:
                    results.append(a.recv())
                except EOFError:
                    died(j, f"worker process died repeatedly (exit code {p.exitcode})")
                p.join(5)
            elif not p.is_alive():
                died(j, f"worker process died repeatedly (exit code {p.exitcode})")
            elif time.time() - t0 > budget:
                p.kill()
                results.append({"idx": j[1], "cfg": j[2],
                                "crash": f"no result within {budget}s (killed)"})
            else:
                still.append((j, p, a, t0))
        running = still
        if running:
            time.sleep(0.05)
    return results


def z3_seed(seed):
    import z3
    z3.set_param("smt.random_seed", seed)
    z3.set_param("sat.random_seed", seed)


def report(prop, tier, seed, mod, cfgs, results, wall, write=True):
    findings = load_findings(prop)
    fin_by_id = {f["id"]: f for f in findings}
    harness_errors = []
    skipped = []
    violations = []
    known = {}
    inconclusive = []
    tot = dict(paths=0, decisions=0, queries=0, solver_s=0.0, obligations=0, discharged=0,
               concolic=0, aborted=0, assumptions=0, cvc5_queries=0, cvc5_s=0.0, by_rewriting=0)
    cross = {"checked": 0, "agreed": 0, "inconclusive": 0}
    functions = set()
    covered = {}
    samples = []
    per_harness = {}
    for r in results:
        cid = r["cfg"].get("id")
        if "crash" in r:
            harness_errors.append(f"{cid}: worker crashed: {r['crash'][:1500]}")
            continue
        if "skipped" in r:
            skipped.append(r["skipped"])
            continue
        for k in tot:
            tot[k] += r[k]
        xc = r.get("crosscheck") or {}
        for k in ("checked", "agreed", "inconclusive"):
            cross[k] += xc.get(k, 0)
        for d in xc.get("disagreements", []):
            harness_errors.append(f"second-solver disagreement: {d}")
        functions |= set(r["functions"])
        hn = r["cfg"]["harness"]
        ph = per_harness.setdefault(hn, dict(configs=0, paths=0, obligations=0, discharged=0,
                                             covered=set()))
        ph["configs"] += 1
        ph["paths"] += r["paths"]
        ph["obligations"] += r["obligations"]
        ph["discharged"] += r["discharged"]
        ph["covered"] |= set(r["covered"])
        for e in r["errors"]:
            harness_errors.append(f"{cid}: {e}")
        for d in r["divergences"]:
            harness_errors.append(f"{cid}: symbolic/concrete divergence: {json.dumps(d)[:600]}")
        for m in r["inconclusive"]:
            inconclusive.append(f"{cid}: {m}")
        for v in r["violations"]:
            violations.append((r["cfg"], v))
        for k in r["known"]:
            known.setdefault(k["finding"], []).append((r["cfg"], k))
        if r["samples"] and len(samples) < 12:
            s = r["samples"][0]
            samples.append({"config": cid, "paths": r["paths"], "obligations": r["obligations"],
                            "discharged": r["discharged"], "example_path": s})

    # vacuity: every harness must have reached each of its declared cover points / requirements
    for hn, ph in per_harness.items():
        must = set(mod.HARNESSES[hn].get("must_cover", []))
        missing = must - ph["covered"]
        if missing:
            harness_errors.append(f"vacuity: harness {hn} never reached {sorted(missing)}")
        if ph["obligations"] == 0:
            harness_errors.append(f"vacuity: harness {hn} discharged nothing")

    # replay candidate violations and known-finding witnesses on the unpatched library
    os.makedirs(os.path.join(VERIF, "replays"), exist_ok=True)
    import glob
    for old in glob.glob(os.path.join(VERIF, "replays", f"{prop}-*.json")):
        os.unlink(old)
    confirmed = []
    seen = set()
    for cfg, v in violations:
        rec = {"property": prop, "config": cfg, "label": v["label"],
               "inputs": explore.jsonable(v["inputs"])}
        st, detail, obs = replay_one(prop, rec)
        if st == "require:" + v["label"]:
            key = (cfg["harness"], v["label"], cfg["id"])
            if key in seen:
                continue
            seen.add(key)
            path = os.path.join(VERIF, "replays", f"{prop}-{len(confirmed):03d}.json")
            rec["observed"] = explore.jsonable(obs)
            json.dump(rec, open(path, "w"), indent=1)
            confirmed.append((path, cfg, v))
        else:
            harness_errors.append(
                f"{cfg['id']}: counterexample for '{v['label']}' did not reproduce on the "
                f"unpatched library (status {st} {detail}); inputs {json.dumps(rec['inputs'])[:300]}")
    known_lines = []
    for fid, hits in sorted(known.items()):
        ok = 0
        example = None
        for cfg, k in hits[:40]:
            rec = {"property": prop, "config": cfg, "label": k["label"],
                   "inputs": explore.jsonable(k["inputs"])}
            st, detail, obs = replay_one(prop, rec)
            if st == "require:" + k["label"]:
                ok += 1
                example = example or (cfg["id"], rec["inputs"])
            else:
                harness_errors.append(f"{cfg['id']}: witness of known finding {fid} did not "
                                      f"reproduce (status {st} {detail})")
        if ok:
            known_lines.append(f"KNOWN-FINDING: property={prop} {fid}: {fin_by_id[fid]['what']} "
                               f"[{len(hits)} hits, e.g. {example[0]} {json.dumps(example[1])[:160]}]")

    # canaries / self tests declared by the harness module
    canary = getattr(mod, "canaries", None)
    canary_info = None
    if canary is not None:
        try:
            canary_info = canary(tier)
            for msg in canary_info.get("failed", []):
                harness_errors.append(f"canary: {msg}")
        except Exception as e:  # noqa: BLE001
            harness_errors.append(f"canary crashed: {type(e).__name__}: {e}")

    if skipped:
        inconclusive.append(f"{len(skipped)} configurations not run: {skipped[0]}")
        if not violations:
            harness_errors.append(f"{len(skipped)} configurations not run: {skipped[0]}")
    for line in known_lines:
        print(line)
    for m in inconclusive[:40]:
        print("INCONCLUSIVE", m)
    if len(inconclusive) > 40:
        print(f"INCONCLUSIVE ... and {len(inconclusive) - 40} more")
    for path, cfg, v in confirmed:
        print(f"  counterexample: config={cfg['id']} label={v['label']} "
              f"inputs={json.dumps(explore.jsonable(v['inputs']))[:300]}")
        print(f"VIOLATION property={prop} replay={path}")
    for e in harness_errors[:30]:
        print("HARNESS-ERROR", e)

    import z3
    ev = {
        "property_id": prop, "tier": tier, "seed": seed, "level": "model_checking",
        "coverage": {
            "states": tot["paths"], "transitions": tot["decisions"] + tot["paths"],  # branch decisions + one final step per path
            "traces_validated_against_impl": tot["concolic"],
            "obligations": tot["obligations"], "discharged": tot["discharged"],
            "discharged_by_solver_query": tot["discharged"] - tot["by_rewriting"],
            "discharged_by_term_rewriting": tot["by_rewriting"],
            "inconclusive": len(inconclusive),
            "inconclusive_examples": inconclusive[:10],
            "configurations": len(cfgs), "infeasible_paths_pruned": tot["aborted"],
            "known_finding_hits": {k: len(v) for k, v in known.items()},
            "solver": {"z3": z3.get_version_string(), "queries": tot["queries"],
                       "seconds": round(tot["solver_s"], 2), "cvc5_binary_queries": tot["cvc5_queries"],
                       "cvc5_seconds": round(tot["cvc5_s"], 2),
                       "note": "queries include path-feasibility queries and obligations; FP "
                               "queries go to the cvc5 1.0.3 binary after a short z3 resource budget"},
            "second_solver_crosscheck": dict(cross, solvers=["z3 4.8.12 binary", "cvc5 1.0.3 binary"],
                                             note="seeded sample of discharged bit-vector "
                                                  "obligations re-decided from an SMT-LIB2 export "
                                                  "(thorough tier)"),
            "bounds": getattr(mod, "BOUNDS", {}).get(tier, getattr(mod, "BOUNDS", {})),
            "functions_executed_symbolically": sorted(functions),
            "stubs": getattr(mod, "STUBS", []),
            "per_harness": {k: {kk: (sorted(vv) if isinstance(vv, set) else vv)
                                for kk, vv in v.items()} for k, v in per_harness.items()},
            "canaries": canary_info,
            "samples": samples or [{"note": "no path sample"}],
            "exhaustive": False,
        },
        "assumptions": getattr(mod, "ASSUMPTIONS", []),
        "wall_s": round(wall, 2),
        "violations": len(confirmed),
        "harness_errors": harness_errors[:20],
    }
    if write:
        os.makedirs(os.path.join(VERIF, "evidence"), exist_ok=True)
        json.dump(ev, open(os.path.join(VERIF, "evidence", f"{prop}.json"), "w"), indent=1,
                  default=str)
    print(f"{prop} {tier}: configs={len(cfgs)} paths={tot['paths']} decisions={tot['decisions']} "
          f"obligations={tot['obligations']} discharged={tot['discharged']} "
          f"inconclusive={len(inconclusive)} known={len(known_lines)} violations={len(confirmed)} "
          f"concolic={tot['concolic']} queries={tot['queries']} solver_s={tot['solver_s']:.1f} "
          f"wall={wall:.1f}s")
    if confirmed:
        return 1
    if harness_errors:
        return 2
    return 0


if __name__ == "__main__":
    sys.exit(main())
