"""C07 - compu methods compute the mathematically specified conversion.

The real CompuMethod objects (all categories except COMPUCODE) are driven with a symbolic value:
an integer of the stated width, or a binary64 x = k/4 for a symbolic integer k (floats).  Python
float arithmetic is modelled exactly (IEEE binary64, round-to-nearest-even); obligations that
contain FP terms are decided by cvc5, bit-vector ones by z3.

Oracles (independent of odxtools):
  validity  : x admissible  <=>  x inside the declared limits under their interval types
  to-int    : y is *a* nearest integer of the exact rational value: 2*|y*D-(O+F*x)| <= |D|(1+2^-20)
              (coefficients taken as the exact rationals of their binary64 values)
  to-float  : y equals the reference formula evaluated in binary64 (or agrees to 2^-40 relative)
  injective : g(f(x)) == x, f(x) declared valid, every valid physical value converts
"""
import itertools
from fractions import Fraction
from math import gcd

import z3

from symx import core, explore
from symx.core import s_and, s_or, s_not, s_implies, SymInt, SymFloat
from catalogue import build

INTS = ("A_INT32", "A_UINT32")
FLOATS = ("A_FLOAT32", "A_FLOAT64")


# ---------------------------------------------------------------------------
# exact oracles in wide bit-vectors
# ---------------------------------------------------------------------------
def _wide(x, width):
    """sign-extend an int-like to `width` bits"""
    if isinstance(x, SymInt):
        return z3.SignExt(width - core.W, x.e)
    return z3.BitVecVal(int(x), width)


def nearest_ok(y, num_terms, den, xs_bits=20):
    """y (int-like) is a nearest integer of (sum of c_i * x_i)/den with rational c_i, den.
    num_terms: list of (Fraction coefficient, int-like or 1)"""
    fr = [Fraction(c) for c, _ in num_terms] + [Fraction(den)]
    L = 1
    for q in fr:
        L = L * q.denominator // gcd(L, q.denominator)
    ints = [int(q * L) for q in fr]
    D = ints[-1]
    width = max(abs(i).bit_length() for i in ints) + xs_bits + 40
    width = max(width, core.W + 8)
    acc = z3.BitVecVal(0, width)
    for c, (_, x) in zip(ints[:-1], num_terms):
        acc = acc + z3.BitVecVal(c, width) * _wide(x, width)
    diff = _wide(y, width) * z3.BitVecVal(D, width) - acc
    ad = z3.If(diff < 0, -diff, diff)
    return core.mkbool(2 * ad * (1 << 20) <= z3.BitVecVal(abs(D) * ((1 << 20) + 1), width))


def abs_le(terms, bound, xs_bits=20):
    """| sum c_i * x_i | <= bound  (rational c_i and bound, int-like x_i), exactly"""
    fr = [Fraction(c) for c, _ in terms] + [Fraction(bound)]
    L = 1
    for q in fr:
        L = L * q.denominator // gcd(L, q.denominator)
    ints = [int(q * L) for q in fr]
    width = max(abs(i).bit_length() for i in ints) + xs_bits + 24
    width = max(width, core.W + 8)
    acc = z3.BitVecVal(0, width)
    for c, (_, x) in zip(ints[:-1], terms):
        acc = acc + z3.BitVecVal(c, width) * _wide(x, width)
    ad = z3.If(acc < 0, -acc, acc)
    return core.mkbool(ad * (1 << 20) <= z3.BitVecVal(ints[-1] * ((1 << 20) + 1), width))


def close(y, ref):
    """floats: identical, or within 2^-40 relative (allows a re-associated but equivalent formula)"""
    ye, re_ = core.fp(y), core.fp(ref)
    same = ye == re_
    tol = z3.fpMul(core.RNE, z3.fpAbs(re_), z3.FPVal(2.0**-40, core.F64))
    near = z3.fpLEQ(z3.fpAbs(z3.fpSub(core.RNE, ye, re_)), tol)
    return core.mkbool(z3.Or(same, near))


def in_limits(x, lo, hi):
    """reference interval membership; lo/hi: None | (value, "OPEN"|"CLOSED"|"INFINITE")"""
    conds = []
    if lo is not None and lo[1] != "INFINITE" and lo[0] is not None:
        conds.append(x > lo[0] if lo[1] == "OPEN" else x >= lo[0])
    if hi is not None and hi[1] != "INFINITE" and hi[0] is not None:
        conds.append(x < hi[0] if hi[1] == "OPEN" else x <= hi[0])
    return s_and(*conds) if conds else True


def _lim(sc, k):
    v = sc.get(k)
    if v is None:
        return None
    if isinstance(v, dict):
        return (v.get("v"), v.get("it", "CLOSED"))
    return (v, "CLOSED")


# ---------------------------------------------------------------------------
# symbolic operand of a data type
# ---------------------------------------------------------------------------
def operand(sx, name, dtype, bits, lo=None, hi=None):
    """returns (python-level value, exact rational handle (num int-like, den int))"""
    if dtype == "A_UINT32":
        v = sx.int(name, -4 if lo is None else lo, (1 << bits) + 4 if hi is None else hi)
        return v, (v, 1)
    if dtype == "A_INT32":
        h = 1 << (bits - 1)
        v = sx.int(name, -h - 4 if lo is None else lo, h + 4 if hi is None else hi)
        return v, (v, 1)
    # floats: the grid k/4
    h = 1 << (bits - 1)
    k = sx.int(name, -h, h)
    if sx.sym:
        return core.tofloat(k) * 0.25, (k, 4)
    return float(k) * 0.25, (k, 4)


def fvalue(x):
    return core.tofloat(x) if isinstance(x, SymInt) else (float(x) if not isinstance(x, SymFloat) else x)


# ---------------------------------------------------------------------------
# harnesses
# ---------------------------------------------------------------------------
def build_cm(cfg):
    import odxtools.request  # noqa
    import odxtools.isotp_state_machine  # noqa
    from odxtools.odxtypes import DataType
    fn = build.compu_method_from_xml if cfg.get("via_xml") else build.compu_method
    return {"cm": fn(cfg["cm"], DataType(cfg["it"]), DataType(cfg["pt"]))}


def _seg_of(cm_spec, x):
    """reference: index of the first scale whose limits contain x (python int, per path)"""
    for i, sc in enumerate(cm_spec["scales"]):
        lo, hi = _lim(sc, "lo"), _lim(sc, "hi")
        if cm_spec["cat"] == "TEXTTABLE" and (lo is None) != (hi is None):
            # ISO 22901-1 7.3.6.6.1: a scale with a single limit applies to exactly that value
            only = (lo or hi)[0]
            if x == only:
                return i
            continue
        if in_limits(x, lo, hi):
            return i
    return None


def _coeffs(sc):
    num = sc["num"]
    den = sc.get("den", [1])
    O = num[0]
    F = num[1] if len(num) > 1 else 0
    D = den[0] if den else 1
    return O, F, D


def _pred(sx, fn, v, label):
    """a validity predicate answers; an exception escaping from it is a violation"""
    try:
        return bool(fn(v))
    except Exception as e:  # noqa: BLE001
        sx.observe("exception", type(e).__name__)
        sx.fail(label)
        raise explore.Abort()


def run_forward(sx, cfg, env):
    """validity + internal->physical for LINEAR / SCALE-LINEAR / TAB-INTP / RAT-FUNC / TEXTTABLE"""
    from odxtools.exceptions import OdxError
    cm = env["cm"]
    spec = cfg["cm"]
    cat = spec["cat"]
    x, (xn, xd) = operand(sx, "x", cfg["it"], cfg["bits"])
    if cfg.get("prior"):
        cm = build_cm(cfg["build"])["cm"]  # a fresh object per path: paths stay independent
        # the conversion is a function of the value: an earlier conversion of ANOTHER (independent,
        # symbolic) value on the same object must not influence the result checked below
        x0, _ = operand(sx, "x0", cfg["it"], 8)
        try:
            if cm.is_valid_internal_value(x0):
                y0 = cm.convert_internal_to_physical(x0)
                if cm.is_valid_physical_value(y0):
                    cm.convert_physical_to_internal(y0)
        except OdxError:
            pass
    # ---- validity
    if cat in ("LINEAR", "SCALE-LINEAR", "RAT-FUNC", "SCALE-RAT-FUNC", "TEXTTABLE"):
        seg = _seg_of(spec, x)
        ref_valid = seg is not None
        if cfg["it"] == "A_UINT32" and cat != "TEXTTABLE":
            pass  # odxtools does not reject negative values of unsigned types by type; limits decide
    elif cat == "TAB-INTP":
        pts = spec["points"]
        xs_ = [p[0] for p in pts]
        ref_valid = bool(s_and(x >= min(xs_), x <= max(xs_)))
        seg = None
    else:
        ref_valid = True
        seg = None
    got_valid = _pred(sx, cm.is_valid_internal_value, x, "internal-validity-predicate-answers")
    sx.require(got_valid == ref_valid, "internal-validity-matches-declared-limits")
    sx.observe("valid", got_valid)
    if not ref_valid:
        sx.cover("invalid")
        return
    sx.cover("valid")
    try:
        y = cm.convert_internal_to_physical(x)
    except OdxError as e:
        sx.observe("error", type(e).__name__)
        sx.fail("valid-internal-value-converts")
        return
    sx.observe("y", y)
    to_int = cfg["pt"] in INTS
    if cat in ("LINEAR", "SCALE-LINEAR"):
        O, F, D = _coeffs(spec["scales"][seg])
        if to_int:
            sx.require(isinstance(y, int), "integer-physical-type-yields-int")
            sx.require(nearest_ok(y, [(Fraction(O) * xd, 1), (Fraction(F), xn)], Fraction(D) * xd,
                                  xs_bits=cfg["bits"] + 4), "linear-formula-rounded-to-nearest")
        else:
            ref = (O + F * x) / D  # the ODX formula under Python's numeric tower
            sx.require(close(y, ref), "linear-formula")
    elif cat == "TAB-INTP":
        i = None
        for j in range(len(pts) - 1):
            if s_and(pts[j][0] <= x, x <= pts[j + 1][0]):
                i = j
                break
        sx.require(i is not None, "interpolation-interval-exists")
        (x0, y0), (x1, y1) = pts[i], pts[i + 1]
        if to_int:
            # y0 + (x - x0) * (y1 - y0) / (x1 - x0), rounded to nearest
            dx = Fraction(x1) - Fraction(x0)
            dy = Fraction(y1) - Fraction(y0)
            const = (Fraction(y0) * dx - Fraction(x0) * dy) * xd
            sx.require(isinstance(y, int), "integer-physical-type-yields-int")
            sx.require(nearest_ok(y, [(const, 1), (dy, xn)], dx * xd, xs_bits=cfg["bits"] + 4),
                       "interpolation-rounded-to-nearest")
        else:
            ref = y0 + (x - x0) * (y1 - y0) / (x1 - x0)
            sx.require(close(y, ref), "interpolation-formula")
    elif cat in ("RAT-FUNC", "SCALE-RAT-FUNC"):
        sc = spec["scales"][seg]
        num, den = sc["num"], sc.get("den", [1])
        xf = fvalue(x)
        n_ = 0.0
        for c in reversed(num):
            n_ = n_ * xf + float(c)
        d_ = 0.0
        for c in reversed(den):
            d_ = d_ * xf + float(c)
        ref = n_ / d_
        if to_int:
            sx.require(isinstance(y, int), "integer-physical-type-yields-int")
            if len(num) <= 2 and len(den) <= 1:
                O = num[0]
                F = num[1] if len(num) > 1 else 0
                sx.require(nearest_ok(y, [(Fraction(O) * xd, 1), (Fraction(F), xn)],
                                      Fraction(den[0] if den else 1) * xd,
                                      xs_bits=cfg["bits"] + 4), "rational-formula-rounded-to-nearest")
            else:
                sx.require(y == round(ref), "rational-formula-rounded-to-nearest")
        else:
            sx.require(close(y, ref), "rational-formula")
    elif cat == "TEXTTABLE":
        want = spec["scales"][seg]["const"]
        sx.require(y == want, "text-of-the-first-applicable-scale")
    elif cat == "IDENTICAL":
        sx.require(y == x, "identity")


def run_inverse(sx, cfg, env):
    """physical->internal: every physical value declared valid converts; the result inverts the
    formula (rounded to nearest for integer internal types)"""
    from odxtools.exceptions import OdxError
    cm = env["cm"]
    spec = cfg["cm"]
    cat = spec["cat"]
    y, (yn, yd) = operand(sx, "y", cfg["pt"], cfg["bits"])
    valid = _pred(sx, cm.is_valid_physical_value, y, "physical-validity-predicate-answers")
    sx.observe("valid", valid)
    if cfg.get("valid_range"):
        ylo, yhi = cfg["valid_range"]
        sx.require(s_implies(s_and(y >= ylo, y <= yhi), valid),
                   "monotone-continuous-method-can-always-encode")
    if not valid:
        sx.cover("invalid")
        try:
            cm.convert_physical_to_internal(y)
        except OdxError:
            return
        return
    sx.cover("valid")
    try:
        x = cm.convert_physical_to_internal(y)
    except OdxError as e:
        sx.observe("error", type(e).__name__)
        if cfg.get("may_refuse"):
            # a method that is not invertible as a whole (a jump, slopes of both signs) may refuse
            # to encode; what it must not do is return something that is not a pre-image
            sx.cover("refused")
            return
        sx.fail("valid-physical-value-converts")
        return
    sx.observe("x", x)
    to_int = cfg["it"] in INTS
    if cat == "LINEAR":
        O, F, D = _coeffs(spec["scales"][0])
        if F == 0:
            return
        if to_int:
            # x = (y*D - O)/F
            sx.require(nearest_ok(x, [(Fraction(D), yn), (-Fraction(O) * yd, 1)], Fraction(F) * yd,
                                  xs_bits=cfg["bits"] + 4), "inverse-linear-formula-rounded-to-nearest")
        else:
            ref = (y * D - O) / F
            sx.require(close(x, ref), "inverse-linear-formula")
        sc0 = spec["scales"][0]
        if all((_lim(sc0, k) or (None, "CLOSED"))[1] == "CLOSED" for k in ("lo", "hi")) and to_int and \
                (cfg["pt"] in FLOATS or abs(Fraction(F) / Fraction(D)) >= 1):
            # a physical value declared valid lies within the image of the internal limits, so its
            # (nearest integer) pre-image lies within the closed integer limits.  (Integer physical
            # types with slopes below 1 are excluded: the rounded image of a limit may have its
            # formal pre-image outside.)
            sx.require(_pred(sx, cm.is_valid_internal_value, x, "internal-validity-predicate-answers"),
                       "pre-image-of-a-valid-physical-value-is-a-valid-internal-value")
    elif cat == "IDENTICAL":
        sx.require(x == y, "identity")
    elif cat == "TAB-INTP":
        pts = spec["points"]
        i = None
        for j in range(len(pts) - 1):
            if s_or(s_and(pts[j][1] <= y, y <= pts[j + 1][1]),
                    s_and(pts[j + 1][1] <= y, y <= pts[j][1])):
                i = j
                break
        sx.require(i is not None, "interpolation-interval-exists")
        (x0, y0), (x1, y1) = pts[i], pts[i + 1]
        if to_int:
            # x0 + (y - y0) * (x1 - x0) / (y1 - y0), rounded to nearest
            dy = Fraction(y1) - Fraction(y0)
            dx = Fraction(x1) - Fraction(x0)
            const = (Fraction(x0) * dy - Fraction(y0) * dx) * yd
            sx.require(isinstance(x, int), "integer-internal-type-yields-int")
            sx.require(nearest_ok(x, [(const, 1), (dx, yn)], dy * yd, xs_bits=cfg["bits"] + 4),
                       "inverse-interpolation-rounded-to-nearest")
        else:
            ref = x0 + (y - y0) * (x1 - x0) / (y1 - y0)
            sx.require(close(x, ref), "inverse-interpolation-formula")
    elif cat == "SCALE-LINEAR":
        # the result must be a pre-image: converting it forward gives y again (integer types,
        # slopes of magnitude >= 1 or plateaus with an inverse value)
        # the result lies in some scale and is a nearest integer pre-image there: its exact
        # forward image is within half a slope of y
        seg = _seg_of(spec, x)
        sx.require(seg is not None, "inverse-result-is-a-valid-internal-value")
        if seg is not None:
            O, F, D = _coeffs(spec["scales"][seg])
            if F != 0 and to_int:
                # |f(x) - y| <= half of the steepest slope (at a scale boundary the nearest
                # pre-image may belong to the neighbouring scale)
                smax = max(abs(Fraction(_coeffs(sc)[1]) / Fraction(_coeffs(sc)[2]))
                           for sc in spec["scales"])
                sx.require(abs_le([(Fraction(O) * yd, 1), (Fraction(F) * yd, x), (-Fraction(D), yn)],
                                  smax / 2 * abs(Fraction(D)) * yd, xs_bits=cfg["bits"] + 4),
                           "inverse-result-is-a-nearest-pre-image")


def run_texttable(sx, cfg, env):
    """TEXTTABLE: every text encodes to its COMPU-INVERSE-VALUE (else the lower limit), which
    decodes back to the same text; every valid internal value decodes to a text that encodes"""
    from odxtools.exceptions import OdxError
    cm = env["cm"]
    spec = cfg["cm"]
    sc = spec["scales"][cfg["scale"]]
    text = sc["const"]
    sx.require(bool(cm.is_valid_physical_value(text)), "text-of-a-scale-is-valid")
    try:
        x = cm.convert_physical_to_internal(text)
    except OdxError:
        sx.fail("text-of-a-scale-encodes")
        return
    lo = _lim(sc, "lo")
    want = sc["inv"] if "inv" in sc else (lo[0] if lo else _lim(sc, "hi")[0])
    sx.require(x == want, "text-encodes-to-inverse-value-or-lower-limit")
    if "inv" in sc or (lo and lo[1] != "OPEN"):
        sx.require(cm.convert_internal_to_physical(x) == text, "text-internal-text-is-identity")
    # forward direction for an arbitrary internal value of this scale
    v, _ = operand(sx, "x", cfg["it"], cfg["bits"])
    if _seg_of(spec, v) == cfg["scale"]:
        sx.cover("in-scale")
        sx.require(cm.convert_internal_to_physical(v) == text, "text-of-the-first-applicable-scale")


def run_roundtrip(sx, cfg, env):
    """injective conversions: image of a valid internal value is valid and converts back to it"""
    from odxtools.exceptions import OdxError
    cm = env["cm"]
    x, _ = operand(sx, "x", cfg["it"], cfg["bits"])
    if not _pred(sx, cm.is_valid_internal_value, x, "internal-validity-predicate-answers"):
        sx.cover("invalid")
        return
    sx.cover("valid")
    try:
        y = cm.convert_internal_to_physical(x)
    except OdxError:
        sx.fail("valid-internal-value-converts")
        return
    sx.require(_pred(sx, cm.is_valid_physical_value, y, "physical-validity-predicate-answers"),
               "image-of-valid-internal-value-is-valid")
    try:
        x2 = cm.convert_physical_to_internal(y)
    except OdxError as e:
        sx.observe("error", type(e).__name__)
        sx.fail("image-converts-back")
        return
    sx.observe("x2", x2)
    if cfg["it"] in INTS:
        sx.require(isinstance(x2, int), "integer-internal-type-yields-int")
    sx.require(x2 == x, "internal-physical-internal-is-identity")


def run_limit(sx, cfg, env):
    """Limit.complies_to_lower/upper and compare_odx_values against the interval definition"""
    from odxtools.compumethods.limit import Limit, IntervalType
    from odxtools.odxtypes import DataType, compare_odx_values
    vt = cfg["vt"]
    if cfg.get("anyfloat"):
        x = sx.float64("x", allow_nan=False)  # EVERY binary64 but NaN, not only the grid k/4
    else:
        x, _ = operand(sx, "x", vt, cfg["bits"])
    lv = cfg["value"]
    lim = Limit(value_raw=None if lv is None else str(lv), value_type=DataType(vt),
                interval_type=None if cfg["itype"] is None else IntervalType(cfg["itype"]))
    it = cfg["itype"] or "CLOSED"
    up = bool(lim.complies_to_upper(x))
    lo = bool(lim.complies_to_lower(x))
    if lv is None or it == "INFINITE":
        sx.require(s_and(up, lo), "infinite-or-absent-limit-admits-everything")
    else:
        sx.require(up == bool(x < lv if it == "OPEN" else x <= lv), "upper-limit-honours-interval-type")
        sx.require(lo == bool(x > lv if it == "OPEN" else x >= lv), "lower-limit-honours-interval-type")
    if lv is not None:
        c = compare_odx_values(x, lv)
        sx.require(c == (1 if x > lv else (-1 if x < lv else 0)), "compare-odx-values-is-a-three-way-comparison")


def run_limitbytes(sx, cfg, env):
    """byte-field limits (ODX 7.3.6.5: the shorter operand is padded with zeros on the right,
    then the operands compare like big-endian numbers of the same length)"""
    from odxtools.compumethods.limit import Limit, IntervalType
    from odxtools.odxtypes import DataType, compare_odx_values
    n = cfg["n"]
    x = sx.bytes("x", n)
    lv = bytes.fromhex(cfg["value"])
    lim = Limit(value_raw=cfg["value"], value_type=DataType.A_BYTEFIELD,
                interval_type=None if cfg["itype"] is None else IntervalType(cfg["itype"]))
    it = cfg["itype"] or "CLOSED"
    m = max(n, len(lv))
    xi = core.int_from_bytes(x, "big") if sx.sym else int.from_bytes(x, "big")
    xi = xi * (1 << (8 * (m - n)))
    li = int.from_bytes(lv.ljust(m, b"\x00"), "big")
    up = bool(lim.complies_to_upper(x))
    lo = bool(lim.complies_to_lower(x))
    if it == "INFINITE":
        sx.require(s_and(up, lo), "infinite-or-absent-limit-admits-everything")
    else:
        sx.require(up == bool(xi < li if it == "OPEN" else xi <= li), "upper-limit-honours-interval-type")
        sx.require(lo == bool(xi > li if it == "OPEN" else xi >= li), "lower-limit-honours-interval-type")
    c = compare_odx_values(x, lv)
    sx.require(c == (1 if xi > li else (-1 if xi < li else 0)), "compare-odx-values-is-a-three-way-comparison")
    c2 = compare_odx_values(lv, x)
    sx.require(c2 == -c, "compare-odx-values-is-antisymmetric")


LIM = {"quick": explore.Limits(max_paths=400, wall_s=240, timeout_ms=30000),
       "thorough": explore.Limits(max_paths=2000, wall_s=1500, timeout_ms=120000)}
HARNESSES = {
    "forward": {"build": build_cm, "run": run_forward, "width": 64, "limits": LIM,
                "must_cover": ["valid", "invalid"], "concolic": True},
    "inverse": {"build": build_cm, "run": run_inverse, "width": 64, "limits": LIM,
                "must_cover": ["valid"]},
    "roundtrip": {"build": build_cm, "run": run_roundtrip, "width": 64, "limits": LIM,
                  "must_cover": ["valid", "require:internal-physical-internal-is-identity"]},
    "texttable": {"build": build_cm, "run": run_texttable, "width": 64, "limits": LIM,
                  "must_cover": ["in-scale", "require:text-encodes-to-inverse-value-or-lower-limit"]},
    "limit": {"build": lambda c: None, "run": run_limit, "width": 64, "limits": LIM,
              "must_cover": ["require:upper-limit-honours-interval-type"]},
    "limitbytes": {"build": lambda c: None, "run": run_limitbytes, "width": 64, "limits": LIM,
                   "must_cover": ["require:compare-odx-values-is-a-three-way-comparison"]},
}


# ---------------------------------------------------------------------------
# catalogue of methods
# ---------------------------------------------------------------------------
def _lin(O, F, D, lo, hi, lo_it="CLOSED", hi_it="CLOSED", inv=None):
    sc = {"num": [O, F], "den": [D], "lo": {"v": lo, "it": lo_it}, "hi": {"v": hi, "it": hi_it}}
    if inv is not None:
        sc["inv"] = inv
    return sc


def methods(tier):
    out = []
    bits_small = 8
    # LINEAR
    lin = [(0, 1, 1), (7, 3, 2), (-40, 0.5, 1), (1.5, 0.1, 1), (0, -2, 1), (3, 2, 1), (10, 1, 4),
           (0, 1, 3), (1, -0.5, 1), (5, 7, 1)]
    if tier == "thorough":
        lin += [(0, 3, 7), (-1, 0.25, 1), (0.1, 10, 1), (2, -3, 1), (0, 1.5, 1), (100, -1, 10)]
    for (O, F, D) in lin:
        for it_, pt_ in (("A_INT32", "A_INT32"), ("A_UINT32", "A_INT32"), ("A_INT32", "A_FLOAT64"),
                         ("A_FLOAT64", "A_INT32"), ("A_FLOAT64", "A_FLOAT64")):
            if tier == "quick" and (it_, pt_) in (("A_FLOAT64", "A_FLOAT64"),) and F not in (1, 0.5):
                continue
            lo, hi = (0, 200) if it_ == "A_UINT32" else (-100, 100)
            for lo_it, hi_it in ((("CLOSED", "CLOSED"),) if tier == "quick" and (O, F, D) != (7, 3, 2)
                                 else (("CLOSED", "CLOSED"), ("OPEN", "CLOSED"), ("CLOSED", "OPEN"),
                                       ("INFINITE", "CLOSED"))):
                cm = {"cat": "LINEAR", "scales": [_lin(O, F, D, lo, hi, lo_it, hi_it)]}
                out.append(("LINEAR", it_, pt_, cm, f"{O}_{F}_{D}_{lo_it[0]}{hi_it[0]}"))
    # one-sided limits (only a lower / only an upper internal limit), both slopes
    for (O, F, D) in ((100, -1, 1), (3, 2, 1), (0, -0.5, 1)):
        for it_, pt_ in (("A_INT32", "A_INT32"), ("A_INT32", "A_FLOAT64")):
            for lo, hi, tag in ((10, None, "lower-only"), (None, 50, "upper-only"), (None, None, "unbounded")):
                cm = {"cat": "LINEAR", "scales": [_lin(O, F, D, lo, hi)]}
                out.append(("LINEAR", it_, pt_, cm, f"{O}_{F}_{D}_{tag}"))
    # SCALE-LINEAR
    sl = {
        "cont-incr": [_lin(0, 1, 1, -100, 0), _lin(0, 2, 1, 0, 50, "OPEN"), _lin(50, 1, 1, 50, 100, "OPEN")],
        "cont-decr": [_lin(0, -1, 1, -100, 0), _lin(0, -3, 1, 0, 60, "OPEN")],
        "gap": [_lin(0, 1, 1, -100, -10), _lin(5, 1, 1, 10, 100)],
        "jump": [_lin(0, 1, 1, -100, 0), _lin(10, 1, 1, 0, 100, "OPEN")],
        "mixed": [_lin(0, 1, 1, -100, 0), _lin(0, -1, 1, 0, 100, "OPEN")],
        "overlap": [_lin(0, 1, 1, -100, 10), _lin(100, 2, 1, 0, 100)],
        # jumps between scales that share their (closed) boundary value: not invertible
        "jump-up-closed": [_lin(0, 1, 1, 0, 10), _lin(5, 1, 1, 10, 20)],
        "jump-down-closed": [_lin(5, 1, 1, 0, 10), _lin(0, 1, 1, 10, 20)],
        "const": [_lin(0, 1, 1, -100, 0), _lin(0, 0, 1, 0, 10, "OPEN", inv=5), _lin(-10, 1, 1, 10, 100, "OPEN")],
        "decr-plateau": [_lin(0, -1, 1, -100, 0), _lin(0, 0, 1, 0, 10, "OPEN", inv=5),
                         _lin(20, -2, 1, 10, 60, "OPEN")],
        "plateau-then-decr": [_lin(7, 0, 1, -100, 0, inv=-50), _lin(7, -1, 1, 0, 50, "OPEN")],
        # continuous and strictly increasing, but the two formulas differ by one ulp at the
        # breakpoint in binary64 (0.2 * 64 vs -32 + 0.7 * 64)
        "cont-noisy": [_lin(0, 0.2, 1, -100, 64), _lin(-32, 0.7, 1, 64, 100, "OPEN")],
        # the outer scales are unbounded
        "cont-unbounded": [_lin(0, 1, 1, None, 0), _lin(0, 2, 1, 0, 50, "OPEN"),
                           _lin(50, 1, 1, 50, None, "OPEN")],
    }
    for name, scales in sl.items():
        for it_, pt_ in (("A_INT32", "A_INT32"), ("A_INT32", "A_FLOAT64")):
            out.append(("SCALE-LINEAR", it_, pt_, {"cat": "SCALE-LINEAR", "scales": scales}, name))
    # TAB-INTP
    tabs = {"incr": [(0, 0), (10, 25), (20, 30)], "decr": [(-10, 100), (0, 0), (30, -7)],
            "nonmono": [(0, 0), (10, 50), (20, 10), (30, 11)], "steep": [(0, 0), (3, 100)]}
    for name, pts in tabs.items():
        for it_, pt_ in (("A_INT32", "A_INT32"), ("A_INT32", "A_FLOAT64"), ("A_FLOAT64", "A_INT32")):
            cm = {"cat": "TAB-INTP", "points": pts,
                  "scales": [{"lo": p[0], "const": p[1]} for p in pts]}
            out.append(("TAB-INTP", it_, pt_, cm, name))
    # RAT-FUNC
    rats = {"cent": ([0, 1], [100], [0, 100], [1]), "lin": ([1, 2], [1], [-0.5, 0.5], [1]), "quad": ([0, 0, 1], [1], None, None),
            "neg": ([-50, 1], [4], [50, 4], [1]), "negquad": ([-300, 0, 0.5], [1], None, None),
            "frac": ([1, 1], [4], [-1, 4], [1]), "recip": ([10], [1, 1], None, None),
            # denominators of degree >= 1 whose coefficient list is not a palindrome
            "moebius": ([10, 3], [4, 1], None, None), "den2": ([8, 0, 1], [2, 0, 1, 3], None, None)}
    for name, (num, den, inum, iden) in rats.items():
        for it_, pt_ in (("A_INT32", "A_FLOAT64"), ("A_INT32", "A_INT32")):
            if name in ("recip", "moebius", "den2") and pt_ == "A_INT32":
                continue  # round(10/(1+x)): symbolic FP division is out of the solvers' reach
            cm = {"cat": "RAT-FUNC", "scales": [{"num": num, "den": den, "lo": 0, "hi": 100}]}
            if inum is not None:
                cm["inv_scales"] = [{"num": inum, "den": iden, "lo": -1000, "hi": 1000}]
            out.append(("RAT-FUNC", it_, pt_, cm, name))
    # SCALE-RAT-FUNC
    cm = {"cat": "SCALE-RAT-FUNC",
          "scales": [{"num": [0, 1], "den": [2], "lo": 0, "hi": 10},
                     {"num": [1, 0, 1], "den": [1], "lo": {"v": 10, "it": "OPEN"}, "hi": 40}]}
    out.append(("SCALE-RAT-FUNC", "A_INT32", "A_FLOAT64", cm, "two"))
    # with an explicit COMPU-PHYS-TO-INTERNAL: integer internal type, float physical type
    cm = {"cat": "SCALE-RAT-FUNC",
          "scales": [{"num": [0, 1], "den": [2], "lo": 0, "hi": 10},
                     {"num": [-25, 3], "den": [1], "lo": {"v": 10, "it": "OPEN"}, "hi": 40}],
          "inv_scales": [{"num": [0, 2], "den": [1], "lo": 0, "hi": 5},
                         {"num": [25, 1], "den": [3], "lo": {"v": 5, "it": "OPEN"}, "hi": 95}]}
    out.append(("SCALE-RAT-FUNC", "A_INT32", "A_FLOAT64", cm, "two-inv"))
    # two scales that share the point 10 with different formulas: the first applicable scale counts
    cm = {"cat": "SCALE-RAT-FUNC",
          "scales": [{"num": [0, 10], "den": [1], "lo": 0, "hi": 10},
                     {"num": [0, 2], "den": [1], "lo": 10, "hi": 20}]}
    out.append(("SCALE-RAT-FUNC", "A_INT32", "A_FLOAT64", cm, "overlap"))
    # TEXTTABLE
    tt = {"cat": "TEXTTABLE", "scales": [
        {"lo": 0, "hi": 0, "const": "off"}, {"lo": 1, "hi": 10, "const": "low"},
        {"lo": {"v": 10, "it": "OPEN"}, "hi": {"v": 20, "it": "OPEN"}, "const": "mid"},
        {"lo": 20, "hi": 20, "const": "edge"}, {"lo": 30, "const": "only"},
        {"hi": 40, "const": "upper-only"}]}
    out.append(("TEXTTABLE", "A_UINT32", "A_UNICODE2STRING", tt, "five"))
    tt2 = {"cat": "TEXTTABLE", "scales": [
        {"lo": -2, "hi": 2, "const": "neutral", "inv": 0}, {"lo": 3, "hi": 9, "const": "high", "inv": 5},
        {"lo": {"v": -20, "it": "OPEN"}, "hi": {"v": -2, "it": "OPEN"}, "const": "low"},
        {"lo": 10, "hi": 10, "const": "ten"}]}
    out.append(("TEXTTABLE", "A_INT32", "A_UNICODE2STRING", tt2, "inverse-values"))
    out.append(("IDENTICAL", "A_INT32", "A_INT32", {"cat": "IDENTICAL"}, "id"))
    return out


def _injective(cat, it_, pt_, cm):
    if cat == "LINEAR":
        O, F, D = _coeffs(cm["scales"][0])
        return pt_ in FLOATS or abs(Fraction(F) / Fraction(D)) >= 1
    return False


def configs(tier, seed):
    out = []
    bits = 8 if tier == "quick" else 12
    for cat, it_, pt_, cm, name in methods(tier):
        base = {"cm": cm, "it": it_, "pt": pt_, "build": {"cm": cm, "it": it_, "pt": pt_}}
        b = bits if not (tier == "thorough" and cat == "LINEAR" and it_ in INTS and pt_ in INTS) else 16
        out.append(dict(base, harness="forward", bits=b, id=f"forward/{cat}/{it_}-{pt_}/{name}"))
        if cat in ("SCALE-RAT-FUNC", "SCALE-LINEAR", "TAB-INTP", "TEXTTABLE") and it_ in INTS and \
                (tier == "thorough" or name in ("two", "overlap") or
                 (cat == "TAB-INTP" and name == "incr" and pt_ in INTS)):
            out.append(dict(base, harness="forward", bits=8, prior=True,
                            id=f"forward-after/{cat}/{it_}-{pt_}/{name}"))
        if cat in ("LINEAR", "IDENTICAL"):
            out.append(dict(base, harness="inverse", bits=b, id=f"inverse/{cat}/{it_}-{pt_}/{name}"))
        if cat == "TAB-INTP" and name in ("incr", "decr", "steep"):
            out.append(dict(base, harness="inverse", bits=8, id=f"inverse/{cat}/{it_}-{pt_}/{name}"))
        if cat == "TEXTTABLE":
            for k in range(len(cm["scales"])):
                out.append(dict(base, harness="texttable", bits=8, scale=k,
                                id=f"texttable/{it_}/{name}/scale{k}"))
        vr = {"cont-incr": [-100, 150], "cont-decr": [-180, 100], "const": [-100, 90],
              "decr-plateau": [-100, 100], "plateau-then-decr": [-43, 7]}
        if cat == "SCALE-LINEAR" and name in vr and pt_ in INTS:
            out.append(dict(base, harness="inverse", bits=9, valid_range=vr[name],
                            id=f"inverse/{cat}/{it_}-{pt_}/{name}"))
        if cat == "SCALE-LINEAR" and name in ("jump-up-closed", "jump-down-closed", "jump", "mixed",
                                              "gap") and pt_ in INTS:
            out.append(dict(base, harness="inverse", bits=8, may_refuse=True,
                            id=f"inverse-or-refuse/{cat}/{it_}-{pt_}/{name}"))
        if cat in ("RAT-FUNC", "SCALE-RAT-FUNC") and "inv_scales" in cm and pt_ in FLOATS:
            out.append(dict(base, harness="roundtrip", bits=bits,
                            id=f"roundtrip/{cat}/{it_}-{pt_}/{name}"))
        if cat == "SCALE-LINEAR" and name in ("cont-incr", "cont-decr", "cont-noisy",
                                              "cont-unbounded") and pt_ in FLOATS:
            # continuous and strictly monotone: injective, every image converts back
            out.append(dict(base, harness="roundtrip", bits=bits,
                            id=f"roundtrip/{cat}/{it_}-{pt_}/{name}"))
        if _injective(cat, it_, pt_, cm) and it_ in INTS:
            out.append(dict(base, harness="roundtrip", bits=bits,
                            id=f"roundtrip/{cat}/{it_}-{pt_}/{name}"))
    # the same descriptions once more, as ODX text read by odxtools' own parser (limits, interval
    # types, inverse values, constants and coefficients are then typed by the parser)
    def _xml_too(c):
        cat, nm = c["id"].split("/")[1], c["id"].split("/")[-1]
        if tier != "quick":
            return True
        return (cat in ("TEXTTABLE", "SCALE-RAT-FUNC", "IDENTICAL") or "texttable" in c["id"] or
                (cat == "SCALE-LINEAR" and nm in ("const", "decr-plateau", "plateau-then-decr", "cont-incr",
                                                  "cont-unbounded")) or
                (cat == "TAB-INTP" and nm in ("incr", "decr")) or
                (cat == "RAT-FUNC" and nm in ("cent", "neg", "moebius")) or
                (cat == "LINEAR" and (nm.startswith("7_3_2_") or nm.endswith("-only"))))
    def _parsable(c):
        # the parser types the coefficients by the physical type: fractional coefficients need a
        # float physical type
        def frac(scs):
            return any(float(x) != int(x) for sc in scs
                       for x in list(sc.get("num", [])) + list(sc.get("den", [])))
        # (the coefficients of COMPU-PHYS-TO-INTERNAL are typed by the internal type)
        return not (frac(c["cm"].get("scales", [])) and c["pt"] in INTS) and \
            not (frac(c["cm"].get("inv_scales", [])) and c["it"] in INTS)
    for c in [c for c in out if _xml_too(c) and _parsable(c)]:
        out.append(dict(c, id=c["id"] + "/xml", via_xml=True, build=dict(c["build"], via_xml=True)))
    for vt in ("A_INT32", "A_UINT32", "A_FLOAT64"):
        for itype in (None, "OPEN", "CLOSED", "INFINITE"):
            for value in (None, 0, 7, -3) if vt != "A_UINT32" else (None, 0, 7):
                out.append({"harness": "limit", "vt": vt, "itype": itype, "value": value, "bits": 10,
                            "id": f"limit/{vt}/{itype}/{value}", "build": {}})
    for itype in (None, "OPEN", "CLOSED"):
        for value in (0, 1, -3, 0.5, 1e-12):
            out.append({"harness": "limit", "vt": "A_FLOAT64", "itype": itype, "value": value,
                        "bits": 64, "anyfloat": True,
                        "id": f"limit/A_FLOAT64-any/{itype}/{value}", "build": {}})
    for n in (1, 2, 3):
        for itype in (None, "OPEN", "CLOSED", "INFINITE"):
            for value in ("10", "1000", "0fff", "00"):
                out.append({"harness": "limitbytes", "n": n, "itype": itype, "value": value,
                            "id": f"limitbytes/{n}/{itype}/{value}", "build": {}})
    return out


BOUNDS = {"quick": "value: 8-bit integers (full range + 4 beyond each end) / binary64 grid k/4, "
                   "|k| <= 2^7; ~260 configurations over ~130 methods", "thorough": "12-bit (16-bit for LINEAR int->int) "
          "integers, grid |k| <= 2^11; ~330 configurations"}
STUBS = ["int/float shims (no bitstruct involved)"]
ASSUMPTIONS = [
    "Python float arithmetic == IEEE-754 binary64 with round-to-nearest-even (SMT FloatingPoint)",
    "integer results: 'a nearest integer' (either neighbour at a tie, slack 2^-20) - binary64 "
    "evaluation can land on a tie that the exact rational misses by 1e-12",
    "wider operands (32 bit) are outside the claim: the solvers return unknown there",
]
