"""C14 - variant identification selects the first candidate whose pattern matches.

Real EcuVariant layers with ECU-VARIANT-PATTERNs are driven through the real VariantMatcher.
The ECU is an uninterpreted deterministic function: one fresh symbolic byte string per distinct
request, reused whenever that request recurs.  The oracle evaluates the specification (first
variant in list order having a pattern all of whose expected values equal the values found in the
responses) over the same symbolic responses.
"""
import itertools

from symx import core, explore
from symx.core import s_and, s_or, s_not
from catalogue import build
from harness.c06 import C, V, MR, NRC, rq

BF = {"dt": "A_BYTEFIELD", "bl": 16}


def ident(n, sub, resp_params):
    return {"name": n, "request": rq(C("sid", 0x22), C("did", sub, 16)),
            "pos": [rq(C("sid", 0x62), C("did", sub, 16), *resp_params)]}


ID1 = ident("ident1", 0xF100, [V("v")])
ID2 = ident("ident2", 0xF101, [V("w", 16)])
ID3 = ident("ident3", 0xF102, [dict(kind="value", name="st", dop=dict(
    complex="structure", params=[V("a"), dict(kind="value", name="serial", dop=BF)]))])
ID4 = ident("ident4", 0xF103, [dict(kind="value", name="items", dop=dict(
    complex="eopfield", structure=dict(params=[V("code")])))])
ID5 = ident("ident5", 0xF104, [dict(kind="value", name="f", dop={"dt": "A_FLOAT32", "bl": 32})])
ID6 = ident("ident6", 0xF105, [dict(kind="value", name="info", dop=dict(
    complex="structure", params=[V("hw"), dict(kind="value", name="boards", dop=dict(
        complex="eopfield", structure=dict(params=[V("rev"), V("x")])))]))])
ID7 = ident("ident7", 0xF106, [dict(kind="value", name="txt", dop={"dt": "A_ASCIISTRING", "bl": 16})])
ID8 = ident("ident8", 0xF107, [dict(kind="value", name="dtc", dop=dict(
    complex="dtc", dt="A_UINT32", bl=24, dtcs=[{"name": "P0001", "code": 1},
                                               {"name": "P0ABC", "code": 0xABC}]))])
ID9 = ident("ident9", 0xF108, [dict(kind="value", name="m", dop=dict(
    complex="mux", bytepos=1, key_dop={"dt": "A_UINT32", "bl": 8}, cases=[
        dict(name="c1", lo=1, hi=1, structure=dict(params=[V("code")])),
        dict(name="c2", lo=2, hi=9, structure=dict(params=[V("other")]))]))])
ID7A = ident("ident7a", 0xF1B6, [dict(kind="value", name="txt1", dop={"dt": "A_ASCIISTRING", "bl": 8})])
ID10 = ident("ident10", 0xF109, [dict(kind="value", name="blocks", dop=dict(
    complex="eopfield", structure=dict(params=[V("major"), dict(kind="value", name="sw", dop=dict(
        complex="structure", params=[V("major"), V("minor")]))])))])
NEGR = rq(C("sid", 0x7F), MR("rsid"), V("nrc"))


def mp(expected, svc, snref=None, path=None):
    return {"expected": expected, "service": svc, "snref": snref, "path": path}


def variant(name, patterns, services=(ID1, ID2, ID3, ID4, ID5, ID6, ID7, ID8, ID9), gnr=(),
            base=False):
    return {"name": name, "patterns": patterns, "services": list(services), "gnr": list(gnr),
            "base": base}


# one pattern OBJECT referenced by two variants whose identification services have the same short
# name but are different services (another request): each variant resolves the name in its own layer
ID1B = ident("ident1", 0xF1A0, [V("pad"), V("v")])  # another request AND another response layout
SHARED_PATTERN = [mp("5", "ident1", "v")]
CANDIDATES = {
    "shared-pattern-object": [variant("v1", [SHARED_PATTERN], services=(ID1B, ID2)),
                              variant("v2", [SHARED_PATTERN], services=(ID1, ID2)),
                              variant("v3", [[mp("6", "ident1", "v")]])],
    "single": [variant("v1", [[mp("5", "ident1", "v")]])],
    "first-wins": [variant("v1", [[mp("5", "ident1", "v")]]), variant("v2", [[mp("5", "ident1", "v")]]),
                   variant("v3", [[mp("6", "ident1", "v")]])],
    "all-params": [variant("v1", [[mp("5", "ident1", "v"), mp("300", "ident2", "w")]]),
                   variant("v2", [[mp("5", "ident1", "v")]])],
    "any-pattern": [variant("v1", [[mp("1", "ident1", "v")], [mp("2", "ident1", "v"), mp("7", "ident2", "w")]]),
                    variant("v2", [[mp("2", "ident1", "v")]])],
    "no-patterns": [variant("v0", []), variant("v1", [[mp("9", "ident1", "v")]])],
    "structure-path": [variant("v1", [[mp("ABCD", "ident3", None, "st.serial")]]),
                       variant("v2", [[mp("7", "ident3", None, "st.a")]])],
    "field-any-item": [variant("v1", [[mp("17", "ident4", None, "items.code")]]),
                       variant("v2", [[mp("5", "ident1", "v")]])],
    # hexadecimal expected values of byte fields in lower and mixed case
    "bytes-lowercase": [variant("v1", [[mp("abcd", "ident3", None, "st.serial")]]),
                        variant("v2", [[mp("aBcE", "ident3", None, "st.serial")]]),
                        variant("v3", [[mp("ABCF", "ident3", None, "st.serial")]])],
    # the identification value is zero / the lowest code
    "zero-value": [variant("v1", [[mp("0", "ident1", "v")]]), variant("v2", [[mp("1", "ident1", "v")]]),
                   variant("v3", [[mp("0", "ident2", "w")]])],
    "noncanonical-expected": [variant("v1", [[mp("05", "ident1", "v")]]),
                              variant("v2", [[mp("5", "ident1", "v")]])],
    "float-value": [variant("v1", [[mp("1.5", "ident5", "f")]]), variant("v2", [[mp("2.5", "ident5", "f")]]),
                    variant("v3", [[mp("-0.25", "ident5", "f")]])],
    "three-level-path": [variant("v1", [[mp("3", "ident6", None, "info.boards.rev")]]),
                         variant("v2", [[mp("9", "ident6", None, "info.hw")]])],
    "string-value": [variant("v1", [[mp("OK", "ident7", "txt")]]), variant("v2", [[mp("ok", "ident7", "txt")]])],
    "dtc-value": [variant("v1", [[mp("0xabc", "ident8", "dtc")]]), variant("v2", [[mp("0X1", "ident8", "dtc")]])],
    "mux-tuple": [variant("v1", [[mp("7", "ident9", None, "m.code")]]),
                  variant("v2", [[mp("7", "ident9", None, "m.other")]])],
    "base-variants": [variant("b1", [[mp("5", "ident1", "v")]], base=True),
                      variant("b0", [], base=True),
                      variant("b2", [[mp("6", "ident1", "v"), mp("1", "ident2", "w")]], base=True)],
    "param-in-later-response": [
        variant("v1", [[mp("17", "ident1n", "nrc")]],
                services=(dict(ID1, name="ident1n", neg=[NEGR]), ID2), gnr=(NEGR,)),
        variant("v2", [[mp("5", "ident1n", "v")]],
                services=(dict(ID1, name="ident1n", neg=[NEGR]), ID2))],
    # two conditions on the same identification service: both must hold
    "two-params-one-service": [
        variant("v1", [[mp("7", "ident3", None, "st.a"), mp("ABCD", "ident3", None, "st.serial")]]),
        variant("v2", [[mp("ABCD", "ident3", None, "st.serial"), mp("9", "ident3", None, "st.a")]]),
        variant("v3", [[mp("ABCD", "ident3", None, "st.serial")]])],
    # the value sits in the service's own NEG-RESPONSE (no global negative response)
    "param-in-negative-response": [
        variant("v1", [[mp("17", "ident1n", "nrc")]],
                services=(dict(ID1, name="ident1n", neg=[NEGR]), ID2)),
        variant("v2", [[mp("5", "ident1n", "v")]],
                services=(dict(ID1, name="ident1n", neg=[NEGR]), ID2))],
    # expected values with blanks, read from ODX text (the blanks belong to the value)
    "string-with-blanks": [variant("v1", [[dict(mp("A ", "ident7", "txt"), xml=True)]]),
                           variant("v2", [[dict(mp("A", "ident7a", "txt1"), xml=True)]],
                                   services=(ID1, ID2, ID3, ID4, ID5, ID6, ID7, ID8, ID9, ID7A)),
                           variant("v3", [[dict(mp(" A", "ident7", "txt"), xml=True)]])],
    # a path that goes on below the items of a field: blocks[*].sw.major, not blocks[*].major
    "path-below-field": [variant("v1", [[mp("5", "ident10", None, "blocks.sw.major")]], services=(ID1, ID10)),
                         variant("v2", [[mp("6", "ident10", None, "blocks.major")]], services=(ID1, ID10)),
                         variant("v3", [[mp("7", "ident10", None, "blocks.sw.minor")]], services=(ID1, ID10))],
    "shared-and-distinct": [variant("v1", [[mp("1", "ident1", "v"), mp("2", "ident2", "w")]]),
                            variant("v2", [[mp("1", "ident1", "v"), mp("3", "ident2", "w")]]),
                            variant("v3", [[mp("4", "ident2", "w")]])],
}


# ---------------------------------------------------------------------------
def build_candidates(cfg):
    import odxtools.isotp_state_machine  # noqa
    import odxtools.variantmatcher  # noqa  (must be imported before the shims are installed)
    from odxtools.ecuvariantpattern import EcuVariantPattern
    from odxtools.basevariantpattern import BaseVariantPattern
    from odxtools.matchingbasevariantparameter import MatchingBaseVariantParameter
    from odxtools.matchingparameter import MatchingParameter
    layers = []
    shared = {}  # pattern / parameter objects are shared where the catalogue shares its lists

    def _mp(m):
        if id(m) not in shared and m.get("xml"):
            from xml.etree import ElementTree
            from xml.sax.saxutils import escape
            from catalogue.build import FRAGS
            out = f'<OUT-PARAM-IF-SNREF SHORT-NAME="{m["snref"]}"/>' if m["snref"] else \
                f'<OUT-PARAM-IF-SNPATHREF SHORT-NAME-PATH="{m["path"]}"/>'
            shared[id(m)] = MatchingParameter.from_et(ElementTree.fromstring(
                f'<MATCHING-PARAMETER><EXPECTED-VALUE>{escape(m["expected"])}</EXPECTED-VALUE>'
                f'<DIAG-COMM-SNREF SHORT-NAME="{m["service"]}"/>{out}</MATCHING-PARAMETER>'), FRAGS)
        if id(m) not in shared:
            shared[id(m)] = MatchingParameter(
                expected_value=m["expected"], diag_comm_snref=m["service"],
                out_param_if_snref=m["snref"], out_param_if_snpathref=m["path"])
        return shared[id(m)]

    def _pat(pat):
        if id(pat) not in shared:
            shared[id(pat)] = EcuVariantPattern(matching_parameters=[_mp(m) for m in pat])
        return shared[id(pat)]
    for v in CANDIDATES[cfg["cand"]]:
        layer = build.build_layer({"services": v["services"], "gnr": v["gnr"]},
                                  base_variant=v.get("base", False))
        layer.diag_layer_raw.short_name = v["name"]
        if v.get("base"):
            pats = v["patterns"]
            layer.diag_layer_raw.base_variant_pattern = None if not pats else BaseVariantPattern(
                matching_base_variant_parameters=[
                    MatchingBaseVariantParameter(
                        expected_value=m["expected"], diag_comm_snref=m["service"],
                        out_param_if_snref=m["snref"], out_param_if_snpathref=m["path"],
                        use_physical_addressing_raw=None) for m in pats[0]])
        else:
            layer.diag_layer_raw.ecu_variant_patterns = [_pat(pat) for pat in v["patterns"]]
        layers.append(layer)
    return {"layers": layers, "spec": CANDIDATES[cfg["cand"]]}


def _svc(v, name):
    for s in v["services"]:
        if s["name"] == name:
            return s
    raise KeyError(name)


def _req_bytes(s):
    out = []
    for p in s["request"]["params"]:
        out += list(int(p["value"]).to_bytes(p["type"]["bl"] // 8, "big"))
    return bytes(out)


def _ref_value_matches(m, v, resp):
    """reference: does some response layout of the identification service decode the message and
    yield the expected value at the referenced output parameter?  (decoding = layout only: a
    mismatching constant does not make the library's decoder fail, it only warns)"""
    s = _svc(v, m["service"])
    results = []
    for r in s.get("pos", []) + s.get("neg", []) + list(v["gnr"]):
        path = [m["snref"]] if m["snref"] else m["path"].split(".")
        dec = _ref_decode(r["params"], resp, 0)
        if dec is None:
            continue  # the layout does not fit -> DecodeError -> this response is skipped
        results.append(_ref_match(dec[0], path, m["expected"]))
    return s_or(*results) if results else False


def _ref_decode(params, resp, pos):
    """(dict of leaf descriptions, end position) or None if the message is too short / ends
    inside an item.  Leaves are (kind, raw bytes)."""
    out = {}
    for p in params:
        if p["kind"] == "const":
            n = p["type"]["bl"] // 8
            if len(resp) < pos + n:
                return None
            out[p["name"]] = ("int", resp[pos:pos + n])
            pos += n
        elif p["kind"] == "matchreq":
            if len(resp) < pos + p["len"]:
                return None
            out[p["name"]] = ("int", resp[pos:pos + p["len"]])
            pos += p["len"]
        else:
            d = p["dop"]
            k = d.get("complex")
            if k == "structure":
                sub = _ref_decode(d["params"], resp, pos)
                if sub is None:
                    return None
                out[p["name"]], pos = sub
            elif k == "dtc":
                n = d["bl"] // 8
                if len(resp) < pos + n:
                    return None
                raw = resp[pos:pos + n]
                val = 0
                for i in range(n):
                    val = (val << 8) | raw[i]
                if not s_or(*[val == x["code"] for x in d["dtcs"]]):
                    return None  # unknown trouble code -> DecodeError
                out[p["name"]] = ("dtc", raw)
                pos += n
            elif k == "mux":
                kpos = pos + d.get("key_bytepos", 0)
                if len(resp) < kpos + 1:
                    return None
                key = resp[kpos]
                case = None
                for c in d["cases"]:
                    if s_and(key >= c["lo"], key <= c["hi"]):
                        case = c
                        break
                if case is None:
                    return None  # no applicable case -> DecodeError
                sub = _ref_decode(case["structure"]["params"], resp, pos + d["bytepos"])
                if sub is None:
                    return None
                out[p["name"]], pos = sub[0], sub[1]
            elif k == "eopfield":
                items = []
                while pos < len(resp):
                    sub = _ref_decode(d["structure"]["params"], resp, pos)
                    if sub is None:
                        return None
                    items.append(sub[0])
                    pos = sub[1]
                out[p["name"]] = items
            else:
                n = d["bl"] // 8
                if len(resp) < pos + n:
                    return None
                kind = {"A_BYTEFIELD": "bytes", "A_FLOAT32": "f32", "A_ASCIISTRING": "latin1"}.get(
                    d["dt"], "int")
                out[p["name"]] = (kind, resp[pos:pos + n])
                pos += n
    return out, pos


def _ref_match(value, path, expected):
    import re
    if isinstance(value, list):
        hits = [_ref_match(x, path, expected) for x in value]
        return s_or(*hits) if hits else False
    if isinstance(value, dict):
        if not path or path[0] not in value:
            return False
        return _ref_match(value[path[0]], path[1:], expected)
    if path:
        return False
    kind, raw = value
    if kind == "bytes":
        if not re.fullmatch(r"[0-9A-Fa-f]*", expected) or len(expected) != 2 * len(raw):
            return False
        return raw == bytes.fromhex(expected)
    if kind == "latin1":
        try:
            want = expected.encode("iso-8859-1")
        except UnicodeEncodeError:
            return False
        return len(want) == len(raw) and raw == want
    if kind == "dtc":
        # hex(trouble code).upper() == expected.upper()
        e = expected.upper()
        if not re.fullmatch(r"0X(0|[1-9A-F][0-9A-F]*)", e):
            return False
        val = 0
        for i in range(len(raw)):
            val = (val << 8) | raw[i]
        return val == int(e, 16)
    if kind == "f32":
        import z3
        bits = z3.Concat(*[core.bv8(core.low8(raw[i])) for i in range(4)])
        val = z3.fpToFP(core.RNE, z3.fpBVToFP(bits, core.F32), core.F64)
        diff = z3.fpAbs(z3.fpSub(core.RNE, z3.FPVal(float(expected), core.F64), val))
        return core.mkbool(z3.fpLT(diff, z3.FPVal(1e-8, core.F64)))
    if not re.fullmatch(r"-?(0|[1-9][0-9]*)", expected) or expected == "-0":
        return False
    val = 0
    for i in range(len(raw)):
        val = (val << 8) | raw[i]
    return val == int(expected)


def run_match(sx, cfg, env):
    from odxtools.variantmatcher import VariantMatcher
    import warnings
    layers, spec = env["layers"], env["spec"]
    rlen = cfg["rlen"]
    responses = {}
    issued = []

    def ecu(req):
        # one response per distinct request; "silent": only the first / all but the first
        # distinct request is answered, the others get an empty response
        key = bytes(req)
        if key not in responses:
            n = rlen
            if cfg.get("silent") == "later" and responses:
                n = 0
            if cfg.get("silent") == "first" and not responses:
                n = 0
            responses[key] = sx.bytes("resp_" + key.hex(), n)
        return responses[key]

    matcher = VariantMatcher(variant_candidates=layers, use_cache=cfg["cache"])
    with warnings.catch_warnings():
        warnings.simplefilter("ignore")
        for physical, req in matcher.request_loop():
            issued.append(bytes(req))
            matcher.evaluate(ecu(req))
    got = matcher.matching_variant.short_name if matcher.has_match() else None
    sx.observe("match", got)
    sx.observe("issued", [r.hex() for r in issued])

    # --- the specification, evaluated over the same symbolic responses
    legal = {_req_bytes(s) for v in spec for s in v["services"]}
    for r in issued:
        sx.require(r in legal, "only-identification-requests-are-issued")
    if cfg["cache"]:
        sx.require(len(issued) == len(set(issued)), "with-caching-no-request-is-issued-twice")
    want = None
    for v in spec:
        pattern_ok = []
        for pat in v["patterns"]:
            pattern_ok.append(s_and(*[
                _ref_value_matches(m, v, ecu(_req_bytes(_svc(v, m["service"])))) for m in pat]))
        if pattern_ok and s_or(*pattern_ok):  # forks
            want = v["name"]
            break
    sx.cover("match" if want else "no-match")
    sx.require(got == want, "first-matching-candidate-is-selected")


LIM = {"quick": explore.Limits(max_paths=20000, wall_s=300), "thorough": explore.Limits(max_paths=200000, wall_s=1500)}
HARNESSES = {"match": {"build": build_candidates, "run": run_match, "width": 80, "limits": LIM,
                       "must_cover": ["match", "no-match"]}}
STUBS = ["int/str/bytes shims (str(int) and bytes.hex() yield symbolic text that supports equality "
         "with concrete strings)", "bitstruct -> models.bitstruct_model"]


def configs(tier, seed):
    out = []
    rlens = [3, 4, 5, 6, 7] if tier == "quick" else [0, 1, 2, 3, 4, 5, 6, 7, 8, 9, 10, 11]
    for name in CANDIDATES:
        for rlen in rlens:
            for cache in (True, False):
                out.append({"id": f"match/{name}/rlen{rlen}/{'cache' if cache else 'nocache'}",
                            "harness": "match", "cand": name, "rlen": rlen, "cache": cache,
                            "build": {"cand": name}})
                if name in ("all-params", "any-pattern", "shared-and-distinct", "base-variants") \
                        and (rlen in (4, 5) or tier != "quick"):
                    for silent in ("first", "later"):
                        out.append({"id": f"match/{name}/rlen{rlen}/{'cache' if cache else 'nocache'}"
                                          f"/silent-{silent}",
                                    "harness": "match", "cand": name, "rlen": rlen, "cache": cache,
                                    "silent": silent, "build": {"cand": name}})
    return out


BOUNDS = {"quick": "17 candidate lists (1..3 variants, 0..2 patterns, 1..2 matching parameters, "
                   "SNREF and SNPATHREF into structures and fields, integer and byte-field values); "
                   "every ECU response of 3..6 bytes; cache on and off",
          "thorough": "responses of 0..11 bytes; silent-ECU variants at every length"}
ASSUMPTIONS = [
    "the ECU is deterministic: the same request always gets the same (symbolic) response",
    "'values decoded from the response' means the layout of any response of the identification "
    "service that fits the message; constants that do not match only warn in the library's decoder",
    "base variants / MatchingBaseVariantParameter and single-ECU jobs are outside the catalogue",
]
