"""C06 - messages are attributed to exactly the services whose description matches.

Real DiagLayer (EcuVariant) objects are built for small service sets with shared / nested / empty
constant prefixes, differing total lengths, MATCHING-REQUEST parameters, NRC-CONST alternatives
and global negative responses.  The whole message M is symbolic (the bytes that walk the prefix
tree dictionaries are value-forked by the engine, the rest stays symbolic).

Oracle: an independent reference matcher (below) over the same spec decides, for M, which
(service, coding object) pairs match: constant prefix equal, message long enough for every
parameter, NRC-CONST value listed; a global negative response applies to a service when none of
the service's own coding objects matches and the GNR's prefix (with the service's request echo)
matches.  Results are compared as sets (duplicates are tolerated).
"""
import itertools

from symx import core, explore
from symx.core import s_and, s_or, s_not
from catalogue import build


def C(name, value, bl=8, **kw):
    return dict(kind="const", name=name, type={"dt": "A_UINT32", "bl": bl}, value=value, **kw)


def V(name, bl=8, **kw):
    return dict(kind="value", name=name, dop={"dt": "A_UINT32", "bl": bl}, **kw)


def MR(name, rqpos=0, ln=1):
    return dict(kind="matchreq", name=name, rqpos=rqpos, len=ln)


def NRC(name, values):
    return dict(kind="nrcconst", name=name, type={"dt": "A_UINT32", "bl": 8}, values=list(values))


def PC(name, value, bl=8):
    return dict(kind="physconst", name=name, dop={"dt": "A_UINT32", "bl": bl}, value=value)


def rq(*params):
    ps = list(params)
    if ps and ps[0].get("bytepos") is None:
        ps[0] = dict(ps[0], bytepos=0)
    return {"params": ps}


NEG = rq(C("sid", 0x7F), MR("rsid"), NRC("nrc", [0x11, 0x12, 0x31]))
NEG2 = rq(C("sid", 0x7F), MR("rsid"), NRC("nrc", [0x22]))
GNR = rq(C("sid", 0x7F), MR("rsid"), V("code"))
GNR_SHORT = rq(C("sid", 0x7F), V("code"))

LAYERS = {
    "disjoint": {"services": [
        {"name": "A", "request": rq(C("sid", 0x10), V("x", 16)), "pos": [rq(C("sid", 0x50), V("y"))]},
        {"name": "B", "request": rq(C("sid", 0x22), V("did", 16)), "pos": [rq(C("sid", 0x62), MR("did", 1, 2), V("v"))]},
    ]},
    "shared-prefix-different-length": {"services": [
        {"name": "A", "request": rq(C("sid", 0x10), V("x", 16))},
        {"name": "B", "request": rq(C("sid", 0x10), C("sub", 0x01))},
    ]},
    "nested-prefix": {"services": [
        {"name": "A", "request": rq(C("sid", 0x31), C("sub", 0x01), V("x"))},
        {"name": "B", "request": rq(C("sid", 0x31), C("sub", 0x01), C("id", 0xFF), V("y", 16))},
        {"name": "D", "request": rq(C("sid", 0x31))},
    ]},
    "nested-responses": {"services": [
        {"name": "A", "request": rq(C("sid", 0x22), V("did")),
         "pos": [rq(C("sid", 0x62), V("did"), V("data"))]},
        {"name": "B", "request": rq(C("sid", 0x22), C("hi", 0xF1), C("lo", 0x90)),
         "pos": [rq(C("sid", 0x62), C("hi", 0xF1), C("lo", 0x90), V("vin"))]},
    ]},
    "equal-prefix": {"services": [
        {"name": "A", "request": rq(C("sid", 0x27), V("x"))},
        {"name": "B", "request": rq(C("sid", 0x27), V("p"), V("q"))},
    ]},
    "empty-prefix": {"services": [
        {"name": "A", "request": rq(C("sid", 0x10), V("x"))},
        {"name": "E", "request": rq(V("free"), C("mid", 0x22))},
    ]},
    "negative-responses": {"services": [
        {"name": "A", "request": rq(C("sid", 0x10), V("x")), "pos": [rq(C("sid", 0x50), V("y"))],
         "neg": [NEG, NEG2]},
        {"name": "B", "request": rq(C("sid", 0x11), V("x")), "neg": [NEG]},
    ]},
    "global-negative": {"services": [
        {"name": "A", "request": rq(C("sid", 0x10), V("x")), "pos": [rq(C("sid", 0x50), V("y"))],
         "neg": [NEG]},
        {"name": "B", "request": rq(C("sid", 0x11), V("x", 16))},
    ], "gnr": [GNR]},
    "global-negative-long-service": {"services": [
        {"name": "A", "request": rq(C("sid", 0x10), V("x", 32))},
        {"name": "B", "request": rq(C("sid", 0x10), C("sub", 0x02), V("y", 16))},
    ], "gnr": [GNR]},
    "two-global-negatives": {"services": [
        {"name": "A", "request": rq(C("sid", 0x10), V("x"))},
    ], "gnr": [GNR, rq(C("sid", 0x7E), MR("rsid"))]},
    "two-positive-responses": {"services": [
        {"name": "A", "request": rq(C("sid", 0x19), C("sub", 0x02), V("mask")),
         "pos": [rq(C("sid", 0x59), C("sub", 0x02), V("avail"), V("dtc", 24)),
                 rq(C("sid", 0x59), C("sub", 0x03), V("n", 16))], "neg": [NEG]},
        {"name": "B", "request": rq(C("sid", 0x19), C("sub", 0x03)),
         "pos": [rq(C("sid", 0x59), C("sub", 0x03), V("m", 16), V("extra"))]},
    ]},
    "identical-requests": {"services": [
        {"name": "A", "request": rq(C("sid", 0x3E), V("sub")), "pos": [rq(C("sid", 0x7E), MR("sub", 1, 1))]},
        {"name": "B", "request": rq(C("sid", 0x3E), V("zero")), "pos": [rq(C("sid", 0x7E), V("z"))]},
    ]},
    "gnr-with-nrc-const": {"services": [
        {"name": "A", "request": rq(C("sid", 0x10), V("x")), "pos": [rq(C("sid", 0x50), V("y"))]},
        {"name": "B", "request": rq(C("sid", 0x11), V("x"))},
    ], "gnr": [rq(C("sid", 0x7F), MR("rsid"), NRC("nrc", [0x10, 0x21])),
               rq(C("sid", 0x7F), MR("rsid"), NRC("nrc", [0x78]), V("more"))]},
    # coding objects that differ only by a PHYS-CONST directly behind the coded constants (a
    # constant for the purpose of matching; identical compu method, fixed length)
    "physconst-discriminates": {"services": [
        {"name": "A", "request": rq(C("sid", 0x22), PC("did", 0x10), V("x")),
         "pos": [rq(C("sid", 0x62), PC("pc", 1), V("a")), rq(C("sid", 0x62), PC("pc", 2), V("b", 16))]},
        {"name": "B", "request": rq(C("sid", 0x22), PC("did", 0x11)),
         "pos": [rq(C("sid", 0x62), PC("pc", 3), V("c"))]},
    ]},
    # the first request byte is made of two 4-bit constants; a third nibble constant follows
    "sid-nibbles": {"services": [
        {"name": "A", "request": rq(C("hi", 0xB, 4, bitpos=4), C("lo", 0x5, 4, bytepos=0), V("x")),
         "pos": [rq(C("hi", 0xF, 4, bitpos=4), C("lo", 0x5, 4, bytepos=0), V("y"))]},
        {"name": "B", "request": rq(C("hi", 0xB, 4, bitpos=4), C("lo", 0x6, 4, bytepos=0),
                                    C("sub", 0x2, 4, bitpos=4, bytepos=1), V("z", 4, bytepos=1)),
         "pos": [rq(C("sid", 0xF6), V("w"))]},
    ]},
    # the leading constant is a 12-bit low-high (little endian) number: wire bytes 22 x1
    "lowhigh-const": {"services": [
        {"name": "A", "request": rq(dict(kind="const", name="sid", value=0x122,
                                         type={"dt": "A_UINT32", "bl": 12, "hl": False}),
                                    V("x", 4, bytepos=1, bitpos=4)),
         "pos": [rq(C("sid", 0x62), V("y"))]},
        {"name": "B", "request": rq(C("sid", 0x23), V("z"))},
    ]},
    # the constant prefix of the request is longer than a whole (negative) response of the service
    "request-prefix-longer-than-response": {"services": [
        {"name": "A", "request": rq(C("sid", 0x31), C("sub", 0x01), C("hi", 0xFF), C("lo", 0x00), V("arg")),
         "pos": [rq(C("sid", 0x71), V("r"))], "neg": [NEG]},
        {"name": "B", "request": rq(C("sid", 0x31), C("sub", 0x02), V("z")), "neg": [NEG2]},
    ]},
    # a global negative response that is LONGER than a service's own negative response; a sibling
    # service with the same SID cannot interpret the message itself
    "long-gnr-short-neg": {"services": [
        {"name": "A", "request": rq(C("sid", 0x22), V("x")), "neg": [rq(C("sid", 0x7F), MR("rsid"), NRC("nrc", [0x11]))]},
        {"name": "B", "request": rq(C("sid", 0x22), V("y"), V("z"))},
    ], "gnr": [rq(C("sid", 0x7F), MR("rsid"), V("code"), V("extra"))]},
    # the request echo of the response straddles the end of the request's constant prefix
    "echo-straddles-prefix": {"services": [
        {"name": "A", "request": rq(C("sid", 0x22), C("hi", 0xF1), V("lo")),
         "pos": [rq(C("sid", 0x62), MR("echo", 1, 2), V("data"))]},
        {"name": "B", "request": rq(C("sid", 0x10), V("s")), "pos": [rq(C("sid", 0x50), V("s"))]},
    ]},
    # the longer of two services ends with a parameter that is not byte aligned and spills into
    # one more byte; a message that is short by exactly that byte belongs to the shorter service
    "unaligned-tail": {"services": [
        {"name": "A", "request": rq(C("sid", 0x2A), V("x"), V("w"))},
        {"name": "B", "request": rq(C("sid", 0x2A), V("y"), V("z", 8, bitpos=4))},
    ]},
    "sid-ff": {"services": [
        {"name": "A", "request": rq(C("sid", 0xFF), V("x")), "pos": [rq(C("sid", 0x3F), V("y"))]},
        {"name": "B", "request": rq(C("sid", 0x00), V("x"))},
    ]},
    "sid-16-bit": {"services": [
        {"name": "A", "request": rq(C("sid", 0x2201, 16), V("x"))},
        {"name": "B", "request": rq(C("sid", 0x22, 8), C("did", 0x02, 8), V("y"))},
    ]},
}


# ---------------------------------------------------------------------------
# reference matcher
# ---------------------------------------------------------------------------
def _bits(p):
    k = p["kind"]
    return {"const": lambda: p["type"]["bl"], "value": lambda: p["dop"]["bl"],
            "physconst": lambda: p["dop"]["bl"], "matchreq": lambda: 8 * p["len"],
            "nrcconst": lambda: 8}[k]()


def _lowhigh(p):
    """is the parameter a low-high (little endian) number? (IS-HIGHLOW-BYTE-ORDER false)"""
    t = p.get("type") or p.get("dop") or {}
    return t.get("hl") is False


def _layout(params):
    """[(parameter, byte position, bit position, number of bytes)]: a parameter without explicit
    byte position starts at the byte after its predecessor"""
    out = []
    cur = 0
    for p in params:
        pos = p["bytepos"] if p.get("bytepos") is not None else cur
        bp = p.get("bitpos") or 0
        n = (bp + _bits(p) + 7) // 8
        out.append((p, pos, bp, n))
        cur = pos + n
    return out


def prefix_of(params, request_prefix=b""):
    """the constant bytes in front of the first byte that is not fully constant"""
    known = {}  # byte position -> [value, mask of constant bits]
    end = 0
    for p, pos, bp, n in _layout(params):
        if p["kind"] in ("const", "physconst"):
            raw = int(p["value"]) << bp
            mask = ((1 << _bits(p)) - 1) << bp
            for i in range(n):
                # high-low: the most significant byte first; low-high: the bytes of the field in
                # reverse order (the bit position applies to the least significant byte)
                sh = 8 * i if _lowhigh(p) else 8 * (n - 1 - i)
                ent = known.setdefault(pos + i, [0, 0])
                ent[0] |= (raw >> sh) & 0xFF
                ent[1] |= (mask >> sh) & 0xFF
        elif p["kind"] == "matchreq" and p["rqpos"] < len(request_prefix):
            if len(request_prefix) < p["rqpos"] + p["len"]:
                break
            for i in range(n):
                known[pos + i] = [request_prefix[p["rqpos"] + i], 0xFF]
        else:
            break
        end = max(end, pos + n)
    out = []
    for i in range(end):
        if i not in known or known[i][1] != 0xFF:
            break
        out.append(known[i][0])
    return bytes(out)


def obj_len(params):
    return max([pos + n for _, pos, _, n in _layout(params)] or [0])


def obj_matches(params, M, request_prefix):
    """(formula: M matches this coding object, dict of parameter values)"""
    pre = prefix_of(params, request_prefix)
    if len(M) < obj_len(params) or len(M) < len(pre):
        return False, None
    conds = [M[:len(pre)] == pre] if pre else []
    vals = {}
    for p, pos, bp, n in _layout(params):
        k = p["kind"]
        v = 0
        for i in (reversed(range(n)) if _lowhigh(p) else range(n)):
            v = (v << 8) | M[pos + i]
        if k == "matchreq":
            # decoded as a little-endian number by odxtools (no byte order is specified for it)
            v = 0
            for i in reversed(range(n)):
                v = (v << 8) | M[pos + i]
        elif bp or _bits(p) % 8:
            v = (v >> bp) & ((1 << _bits(p)) - 1)
        vals[p["name"]] = v
        if k == "nrcconst":
            conds.append(s_or(*[v == x for x in p["values"]]))
        # constant bits outside the whole-byte prefix are not a condition: the library's decoder only
        # warns about a coded constant that differs (stated assumption, as for constants behind values)
    return s_and(*conds) if conds else True, vals


def on_path(prefix, R):
    """concrete: is `prefix` a prefix of the concrete byte string R"""
    return len(prefix) <= len(R) and bytes(R[:len(prefix)]) == bytes(prefix)


def first_bytes(spec):
    out = set()
    for sv in spec["services"]:
        rqp = prefix_of(sv["request"]["params"]) if sv.get("request") else b""
        for r in [sv.get("request")] + sv.get("pos", []) + sv.get("neg", []) + spec.get("gnr", []):
            if r:
                pre = prefix_of(r["params"], rqp)
                if pre:
                    out.add(pre[0])
    return out


def candidates_for_request(spec, R):
    """services found through request R: some constant prefix of the service (request, its
    responses, the global negative responses with its request echo) is a non-empty prefix of R"""
    out = []
    for sv in spec["services"]:
        rqp = prefix_of(sv["request"]["params"]) if sv.get("request") else b""
        pres = [rqp]
        for r in sv.get("pos", []) + sv.get("neg", []) + spec.get("gnr", []):
            pres.append(prefix_of(r["params"], rqp))
        if any(len(p) > 0 and on_path(p, R) for p in pres):
            out.append(sv["name"])
    return out


def reference(spec, M, only=None):
    """set of (service, coding object) names that must be reported, with values"""
    out = {}
    for sv in spec["services"]:
        if only is not None and sv["name"] not in only:
            continue
        rqp = prefix_of(sv["request"]["params"]) if sv.get("request") else b""
        objs = []
        if sv.get("request"):
            objs.append((sv["name"] + "_rq", sv["request"]["params"]))
        objs += [(f"{sv['name']}_pr{i}", r["params"]) for i, r in enumerate(sv.get("pos", []))]
        objs += [(f"{sv['name']}_nr{i}", r["params"]) for i, r in enumerate(sv.get("neg", []))]
        own = []
        for oname, params in objs:
            ok, vals = obj_matches(params, M, rqp)
            if ok:  # forks when symbolic
                own.append((oname, vals))
        if own:
            for oname, vals in own:
                out[(sv["name"], oname)] = vals
            continue
        for i, g in enumerate(spec.get("gnr", [])):
            ok, vals = obj_matches(g["params"], M, rqp)
            if ok:
                out[(sv["name"], f"gnr{i}")] = vals
    return out


# ---------------------------------------------------------------------------
# harnesses
# ---------------------------------------------------------------------------
def build_layer(cfg):
    import odxtools.isotp_state_machine  # noqa
    return {"layer": build.build_layer(LAYERS[cfg["layer"]]), "spec": LAYERS[cfg["layer"]]}


def _compare(sx, got, want):
    gotset = {}
    for m in got:
        gotset[(m.service.short_name, m.coding_object.short_name)] = m.param_dict
    sx.observe("reported", sorted(f"{a}/{b}" for a, b in gotset))
    for key in want:
        sx.require(key in gotset, "matching-service-is-reported")
    for key in gotset:
        sx.require(key in want, "reported-service-matches")
    for key, vals in want.items():
        if key in gotset:
            for name, v in vals.items():
                sx.require(gotset[key].get(name) == v, "reported-values")


def run_decode(sx, cfg, env):
    from odxtools.exceptions import DecodeError
    import warnings
    layer, spec = env["layer"], env["spec"]
    M = sx.bytes("msg", cfg["mlen"])
    if cfg.get("first") is not None:
        sx.assume(M[0] == cfg["first"])
    elif cfg.get("not_first"):
        sx.assume(s_and(*[M[0] != b for b in cfg["not_first"]]))
    want = reference(spec, M)
    ambiguous = len({k[0] for k in want}) != len(want)
    if ambiguous:
        sx.cover("ambiguous")
        return  # two coding objects of ONE service match: outside the claim
    try:
        with warnings.catch_warnings():
            warnings.simplefilter("ignore")
            got = layer.decode(M)
    except DecodeError:
        sx.cover("decode-error")
        sx.observe("reported", "DecodeError")
        sx.require(len(want) == 0, "decode-error-only-if-nothing-matches")
        return
    except Exception as e:  # noqa: BLE001  "raises a decode error only if there is none": no other
        sx.observe("exception", type(e).__name__)  # exception class may leave the layer
        sx.fail("only-the-decode-error-leaves-the-layer")
        return
    sx.cover("decoded")
    _compare(sx, got, want)


def run_own(sx, cfg, env):
    """the encoded request of every service is attributed to it with the original values"""
    import warnings
    layer, spec = env["layer"], env["spec"]
    sv = spec["services"][cfg["service"]]
    vals = {}
    for p in sv["request"]["params"]:
        if p["kind"] == "value":
            vals[p["name"]] = sx.int(p["name"], 0, (1 << p["dop"]["bl"]) - 1)
    from odxtools.exceptions import DecodeError
    svc = layer.services[sv["name"]]
    pdu = svc.encode_request(**vals)
    # service-group view: filed under the first byte of its request
    groups = layer.service_groups
    first = pdu[0]
    if not prefix_of(sv["request"]["params"]):
        # no constant first byte: the service is filed under None and under no number
        keys = list(groups)
        sx.require(None in keys and any(s.short_name == sv["name"] for s in groups[None]),
                   "service-without-constant-first-byte-is-filed-under-none")
        for key in keys:
            if key is not None:
                sx.require(all(s.short_name != sv["name"] for s in groups[key]),
                           "service-without-constant-first-byte-is-filed-under-none")
    elif isinstance(first, int) and not isinstance(first, core.SymInt):
        try:
            grp = groups[first]
        except KeyError:
            grp = []
        except Exception as e:  # noqa: BLE001
            sx.observe("exception", type(e).__name__)
            grp = []
        sx.require(any(s.short_name == sv["name"] for s in grp or []),
                   "service-filed-under-first-request-byte")

    try:
        with warnings.catch_warnings():
            warnings.simplefilter("ignore")
            got = layer.decode(core.frozen(pdu))
    except DecodeError:
        sx.fail("own-request-attributed-to-its-service")
        return
    except Exception as e:  # noqa: BLE001  "raises a decode error only if there is none": no other
        sx.observe("exception", type(e).__name__)  # exception class may leave the layer
        sx.fail("only-the-decode-error-leaves-the-layer")
        return
    mine = [m for m in got if m.service.short_name == sv["name"]
            and m.coding_object.short_name == sv["name"] + "_rq"]
    sx.require(len(mine) >= 1, "own-request-attributed-to-its-service")
    for m in mine:
        for k, v in vals.items():
            sx.require(m.param_dict.get(k) == v, "own-request-values")


def run_response(sx, cfg, env):
    """a response is found through the request that triggered it"""
    import warnings
    from odxtools.exceptions import DecodeError
    layer, spec = env["layer"], env["spec"]
    sv = spec["services"][cfg["service"]]
    svc = layer.services[sv["name"]]
    rvals = {p["name"]: sx.int("rq_" + p["name"], 0, (1 << p["dop"]["bl"]) - 1)
             for p in sv["request"]["params"] if p["kind"] == "value"}
    req = core.frozen(svc.encode_request(**rvals))
    resp_spec = sv["pos"][0]
    pvals = {p["name"]: sx.int("rs_" + p["name"], 0, (1 << p["dop"]["bl"]) - 1)
             for p in resp_spec["params"] if p["kind"] == "value"}
    resp = core.frozen(svc.encode_positive_response(req, **pvals))
    try:
        with warnings.catch_warnings():
            warnings.simplefilter("ignore")
            got = layer.decode_response(resp, req)
    except DecodeError:
        sx.fail("response-found-through-its-request")
        return
    except Exception as e:  # noqa: BLE001  "raises a decode error only if there is none": no other
        sx.observe("exception", type(e).__name__)  # exception class may leave the layer
        sx.fail("only-the-decode-error-leaves-the-layer")
        return
    mine = [m for m in got if m.service.short_name == sv["name"]
            and m.coding_object.short_name == sv["name"] + "_pr0"]
    sx.require(len(mine) >= 1, "response-found-through-its-request")
    for m in mine:
        for k, v in pvals.items():
            sx.require(m.param_dict.get(k) == v, "response-values")


def run_response_any(sx, cfg, env):
    """decode_response(response, request) for EVERY response message: candidates are the services
    found through the (encoded) request of service k"""
    from odxtools.exceptions import DecodeError
    import warnings
    layer, spec = env["layer"], env["spec"]
    sv = spec["services"][cfg["service"]]
    svc = layer.services[sv["name"]]
    rvals = {p["name"]: sx.int("rq_" + p["name"], 0, (1 << p["dop"]["bl"]) - 1)
             for p in sv["request"]["params"] if p["kind"] == "value"}
    req = core.frozen(svc.encode_request(**rvals))
    const_part = prefix_of(sv["request"]["params"])
    M = sx.bytes("resp", cfg["mlen"])
    if cfg.get("first") is not None:
        sx.assume(M[0] == cfg["first"])
        if cfg.get("second_hi") is not None:
            sx.assume(M[1] >> 4 == cfg["second_hi"])
    elif cfg.get("not_first"):
        sx.assume(s_and(*[M[0] != b for b in cfg["not_first"]]))
    # the prefix-tree walk only depends on the constant prefix of the request unless a value byte
    # happens to continue another service's prefix; restrict to requests whose value bytes do not
    cands = candidates_for_request(spec, bytes(const_part))
    longer = [s2 for s2 in spec["services"] if s2.get("request") and
              len(prefix_of(s2["request"]["params"])) > len(const_part) and
              on_path(const_part, prefix_of(s2["request"]["params"]))]
    if longer:
        if not cfg.get("warm"):
            sx.cover("skipped-ambiguous-request")
            return
        # requests whose value bytes do not continue the constant prefix of a longer request
        for s2 in longer:
            p2 = prefix_of(s2["request"]["params"])
            if len(req) > len(const_part):
                sx.assume(req[len(const_part)] != p2[len(const_part)])
    want = reference(spec, M, only=cands)
    if len({k[0] for k in want}) != len(want):
        return
    if cfg.get("warm"):
        # earlier look-ups on the same layer (the own request of every service) must not change
        # what a later one finds
        for s2 in spec["services"]:
            if s2.get("request"):
                try:
                    with warnings.catch_warnings():
                        warnings.simplefilter("ignore")
                        w = layer.services[s2["name"]].encode_request(
                            **{p["name"]: 0 for p in s2["request"]["params"] if p["kind"] == "value"})
                        layer.decode(bytes(w))
                except Exception:  # noqa: BLE001
                    pass
    try:
        with warnings.catch_warnings():
            warnings.simplefilter("ignore")
            got = layer.decode_response(M, req)
    except DecodeError:
        sx.cover("decode-error")
        sx.require(len(want) == 0, "decode-error-only-if-nothing-matches")
        return
    except Exception as e:  # noqa: BLE001  "raises a decode error only if there is none": no other
        sx.observe("exception", type(e).__name__)  # exception class may leave the layer
        sx.fail("only-the-decode-error-leaves-the-layer")
        return
    sx.cover("decoded")
    _compare(sx, got, want)


LIM = {"quick": explore.Limits(max_paths=20000, wall_s=300), "thorough": explore.Limits(max_paths=200000, wall_s=1500)}
HARNESSES = {
    "decode": {"build": build_layer, "run": run_decode, "width": 80, "limits": LIM,
               "must_cover": ["decoded", "decode-error"]},
    "own": {"build": build_layer, "run": run_own, "width": 80, "limits": LIM,
            "must_cover": ["require:own-request-values"]},
    "response": {"build": build_layer, "run": run_response, "width": 80, "limits": LIM,
                 "must_cover": ["require:response-values"]},
    "response-any": {"build": build_layer, "run": run_response_any, "width": 80, "limits": LIM,
                     "must_cover": ["decoded", "decode-error"]},
}
STUBS = ["int/bytes/bytearray shims", "bitstruct -> models.bitstruct_model"]


def configs(tier, seed):
    out = []
    maxlen = 4 if tier == "quick" else 6
    for name, spec in LAYERS.items():
        ml = maxlen
        if tier == "quick" and name not in ("global-negative-long-service", "nested-prefix"):
            ml = 3
        firsts = sorted(first_bytes(spec))
        for n in range(0, ml + 1):
            base = {"harness": "decode", "layer": name, "mlen": n, "build": {"layer": name}}
            if n >= 2:
                # one configuration per first byte that occurs in the prefix tree (+ "other"), so
                # that the work spreads over the cores
                for fb in firsts:
                    out.append(dict(base, id=f"decode/{name}/len{n}/b{fb:02x}", first=fb))
                out.append(dict(base, id=f"decode/{name}/len{n}/other", not_first=firsts))
            else:
                out.append(dict(base, id=f"decode/{name}/len{n}"))
        for i, sv in enumerate(spec["services"]):
            if sv.get("request"):
                out.append({"id": f"own/{name}/{sv['name']}", "harness": "own", "layer": name,
                            "service": i, "build": {"layer": name}})
            if sv.get("request") and sv.get("pos"):
                out.append({"id": f"response/{name}/{sv['name']}", "harness": "response",
                            "layer": name, "service": i, "build": {"layer": name}})
            if sv.get("request") and name in (("negative-responses", "global-negative")
                                               if tier == "quick" else
                                               ("negative-responses", "global-negative", "disjoint",
                                                "two-global-negatives")):
                for n in ((3,) if tier == "quick" else (2, 3, 4)):
                    base = {"harness": "response-any", "layer": name, "service": i, "mlen": n,
                            "build": {"layer": name}}
                    stem = f"response-any/{name}/{sv['name']}/len{n}"
                    if tier == "quick" and sv["name"] != "A":
                        continue
                    for hi in (range(16) if tier != "quick" else (1, 2)):
                        out.append(dict(base, id=f"{stem}/b7f/{hi:x}x", first=0x7F, second_hi=hi))
                    out.append(dict(base, id=f"{stem}/other", not_first=[0x7F]))
    for n in (3, 4):
        for i in (0, 1):
            out.append({"harness": "response-any", "layer": "nested-responses", "service": i, "mlen": n,
                        "warm": True, "first": 0x62, "build": {"layer": "nested-responses"},
                        "id": f"response-any/nested-responses/{'AB'[i]}/len{n}/warm"})
    return out


BOUNDS = {"quick": "10 service sets of 1..3 services; every message of length 0..3 (0..4 for the "
                   "sets with 5-byte requests)",
          "thorough": "every message of length 0..6"}
ASSUMPTIONS = [
    "results are compared as sets of (service, coding object); duplicates are tolerated",
    "messages for which two coding objects of ONE service match are outside the claim "
    "(odxtools reports 'cannot uniquely decode')",
    "a coded constant AFTER the first non-constant parameter that does not match only warns in "
    "odxtools; the reference therefore matches on the constant prefix, the length and NRC-CONST",
]
