"""C12 - ISO-TP reassembly returns exactly the transmitted telegrams.

A reference ISO 15765-2 segmenter (models/isotp_ref.py) turns telegrams with symbolic payload
and symbolic padding into frames; the real IsoTpStateMachine / IsoTpActiveDecoder consume them.

  single     : one telegram of every enumerated length / frame size, padding symbolic
  sequence   : 2..3 telegrams back to back on one id
  interleave : telegrams on up to 3 ids; the schedule (which id sends its next frame, or a
               flow-control frame / a frame of an unrelated id is inserted) is symbolic
  active     : IsoTpActiveDecoder with a recording bus: one clear-to-send per first frame
In concrete mode (the concolic replay of every path) the same frames are additionally rendered
in both candump text formats and read back through read_telegrams (witness level).
"""
import asyncio
import contextlib
import io
import itertools

from symx import core, explore
from symx.core import s_and, s_not
from models import isotp_ref

IDS = [0x7E8, 0x7E9, 0x123]
TX = [0x7E0, 0x7E1, 0x124]
OTHER = 0x555


def _iso():
    import odxtools.isotp_state_machine as iso
    return iso


def _frame_bytes(fr):
    return core.mkbytes([x if not isinstance(x, int) or isinstance(x, core.SymInt) else x
                         for x in map(_item, fr)])


def _item(x):
    return core.low8(x)


def _segments(sx, name, L, fs, pad):
    payload = sx.bytes(name, L)
    padding = list(sx.bytes(name + ".pad", fs)) if pad else []
    frames = isotp_ref.segment(list(payload), frame_size=fs, padding=padding,
                               pad_to=fs if pad else None)
    return payload, [_frame_bytes(f) for f in frames]


def _render(frames_with_ids, fmt):
    lines = []
    for rid, fr in frames_with_ids:
        b = bytes(fr)
        if fmt.startswith("candump"):
            lines.append(f"  can0  {rid:03X}   [{len(b)}]  " + " ".join(f"{x:02X}" for x in b))
        elif fmt.startswith("log"):
            lines.append(f"(1600000000.000000) can0 {rid:03X}#" + b.hex().upper())
        elif fmt == "fdlog":
            lines.append(f"(1600000000.000000) can0 {rid:03X}##1" + b.hex().upper())
    if fmt.endswith("+noise") and lines:
        # lines that are not frames (blank, white space, remarks) are not frames: a log that
        # contains them still holds the same frames
        lines[1:1] = ["", "   ", "# remark"]
        lines.append("")
        lines.append("; end of capture")
    return "\n".join(lines) + "\n"


def _read_log(ids, text):
    iso = _iso()
    sm = iso.IsoTpStateMachine(list(ids))

    async def go():
        out = []
        async for t in sm.read_telegrams(io.StringIO(text)):
            out.append((t[0], bytes(t[1])))
        return out

    with contextlib.redirect_stdout(io.StringIO()):  # "unrecognized frame format" warnings
        return asyncio.run(go())


def _check_logs(sx, ids, sent, expected, fs):
    """witness level: only in concrete mode (replay of each path's model)"""
    if sx.sym:
        return
    exp = [(i, bytes(p)) for i, p in expected]
    fmts = ["candump", "log", "candump+noise", "log+noise"] if fs <= 8 else ["candump", "fdlog"]
    for fmt in fmts:
        if any(len(f) == 0 for _, f in sent):
            continue  # the text formats cannot express an empty frame
        got = _read_log(ids, _render(sent, fmt))
        sx.require(got == exp, f"witness:log-format-{fmt}-gives-same-telegrams")


def run_single(sx, cfg, env):
    iso = _iso()
    rx = cfg.get("rxid", IDS[0])
    return _run_single(sx, cfg, iso, rx)


def _run_single(sx, cfg, iso, RX0):
    sm = iso.IsoTpStateMachine([RX0])
    payload, frames = _segments(sx, "p", cfg["L"], cfg["fs"], cfg["pad"])
    got = []
    for i, fr in enumerate(frames):
        out = list(sm.decode_rx_frame(RX0, fr))
        if i < len(frames) - 1:
            sx.require(len(out) == 0, "no-early-report")
        got += out
    sx.require(len(got) == 1, "telegram-reported-exactly-once")
    if got:
        sx.require(got[0][0] == RX0, "telegram-id")
        sx.require(len(got[0][1]) == cfg["L"], "telegram-length")
        sx.require(got[0][1] == payload, "telegram-content")
        sx.observe("telegram", core.frozen(got[0][1]))
    sx.observe("n_frames", len(frames))
    _check_logs(sx, [RX0], [(RX0, f) for f in frames], [(RX0, payload)], cfg["fs"])


def run_sequence(sx, cfg, env):
    iso = _iso()
    sm = iso.IsoTpStateMachine([IDS[0]])
    got, sent, exp = [], [], []
    for k, L in enumerate(cfg["Ls"]):
        payload, frames = _segments(sx, f"p{k}", L, cfg["fs"], cfg["pad"])
        exp.append((IDS[0], payload))
        for fr in frames:
            sent.append((IDS[0], fr))
            got += list(sm.decode_rx_frame(IDS[0], fr))
    sx.require(len(got) == len(exp), "each-telegram-reported-once")
    for (gi, gd), (ei, ed) in zip(got, exp):
        sx.require(s_and(gi == ei, len(gd) == len(ed)), "telegram-order")
        sx.require(gd == ed, "telegram-content")
    _check_logs(sx, [IDS[0]], sent, exp, cfg["fs"])


def run_interleave(sx, cfg, env):
    """cfg["Ls"]: per id a list of telegram lengths (sent in order on that id)"""
    iso = _iso()
    n = len(cfg["Ls"])
    ids = IDS[:n]
    sm = iso.IsoTpStateMachine(list(ids))
    streams, exp, last_of = [], {}, []
    for k, lens in enumerate(cfg["Ls"]):
        frs, ends = [], set()
        exp[ids[k]] = []
        for j, L in enumerate(lens):
            payload, frames = _segments(sx, f"p{k}_{j}", L, cfg["fs"], cfg["pad"])
            frs += frames
            ends.add(len(frs) - 1)
            exp[ids[k]].append(payload)
        streams.append(frs)
        last_of.append(ends)
    fc = sx.bytes("fc", 3)
    sx.assume(fc[0] >> 4 == 3)
    stray = sx.bytes("stray", cfg["fs"])
    pos = [0] * n
    got, sent = [], []
    extra = cfg.get("extra", 1)
    step = 0
    while any(pos[k] < len(streams[k]) for k in range(n)):
        opts = [k for k in range(n) if pos[k] < len(streams[k])]
        if extra > 0:
            opts = opts + ["fc", "stray"]
        if len(opts) > 1:
            who = sx.choice(f"sched{step}", opts)
        else:
            who = opts[0]
        step += 1
        if who == "fc":
            extra -= 1
            tgt = ids[0]
            sent.append((tgt, fc))
            out = list(sm.decode_rx_frame(tgt, fc))
            sx.require(len(out) == 0, "flow-control-frame-reports-nothing")
            continue
        if who == "stray":
            extra -= 1
            sent.append((OTHER, stray))
            out = list(sm.decode_rx_frame(OTHER, stray))
            sx.require(len(out) == 0, "unrelated-id-reports-nothing")
            continue
        fr = streams[who][pos[who]]
        is_last = pos[who] in last_of[who]
        pos[who] += 1
        sent.append((ids[who], fr))
        out = list(sm.decode_rx_frame(ids[who], fr))
        if not is_last:
            sx.require(len(out) == 0, "no-early-report")
        else:
            sx.require(len(out) == 1, "telegram-reported-at-last-frame")
        got += out
    sx.require(len(got) == sum(len(v) for v in exp.values()), "each-telegram-reported-once")
    nxt = {i: 0 for i in ids}
    order = []
    for gi, gd in got:
        sx.require(gi in exp and nxt.get(gi, 99) < len(exp.get(gi, [])), "telegram-id")
        want = exp[gi][nxt[gi]]
        nxt[gi] += 1
        sx.require(len(gd) == len(want), "telegram-length")
        sx.require(gd == want, "telegram-content")
        order.append((gi, want))
    sx.observe("order", [i for i, _ in order])
    _check_logs(sx, ids, sent, order, cfg["fs"])


def run_isolation(sx, cfg, env):
    """one arbitrary frame for a symbolic-chosen id, from an arbitrary state of ALL ids: the
    state of every other id is untouched and the addressed id behaves like the reference
    (inductive step for 'no state leaks between concurrently reassembled ids')"""
    iso = _iso()
    n = len(cfg["ms"])
    ids = IDS[:n]
    sm = iso.IsoTpStateMachine(list(ids))
    ref = isotp_ref.RefReassembler(ids)
    snap = []
    for k, m in enumerate(cfg["ms"]):
        nn = sx.int(f"n{k}", 0, 4095)
        last = sx.int(f"last{k}", 0, 15)
        sm._telegram_specified_len[k] = nn
        sm._telegram_last_rx_fragment_idx[k] = last
        if m is None:
            sm._telegram_data[k] = None
            ref.cur[ids[k]] = None
            snap.append((nn, last, None))
        else:
            buf = sx.bytes(f"buf{k}", m, mutable=True)
            sm._telegram_data[k] = buf
            ref.cur[ids[k]] = [nn, core.frozen(buf), last]
            snap.append((nn, last, core.frozen(buf)))
    who = sx.choice("who", list(range(n)) + ["other"])
    fr = sx.bytes("f", cfg["flen"])
    rid = OTHER if who == "other" else ids[who]
    out = list(sm.decode_rx_frame(rid, fr))
    if who == "other":
        sx.require(len(out) == 0, "unrelated-id-reports-nothing")
    else:
        kind, tel, must = ref.step(rid, fr)
        sx.cover("ref:" + kind)
        if out:
            sx.require(s_and(len(out) == 1, tel is not None), "no-fabricated-telegram")
            sx.require(out[0][0] == rid, "telegram-id")
            sx.require(len(out[0][1]) == len(tel), "telegram-length")
            sx.require(out[0][1] == tel, "telegram-content")
        elif tel is not None:
            sx.require(s_not(must), "complete-transfer-is-reported")
    for k in range(n):
        if who != "other" and k == who:
            continue
        nn, last, buf = snap[k]
        d = sm._telegram_data[k]
        sx.require(sm._telegram_specified_len[k] == nn, "other-id-state-untouched:length")
        sx.require(sm._telegram_last_rx_fragment_idx[k] == last, "other-id-state-untouched:sequence")
        sx.require((d is None) == (buf is None), "other-id-state-untouched:buffer")
        if d is not None and buf is not None:
            sx.require(s_and(len(d) == len(buf), d == buf), "other-id-state-untouched:buffer")


class _Bus:
    def __init__(self):
        self.sent = []

    def send(self, msg):
        self.sent.append(msg)


def run_active(sx, cfg, env):
    iso = _iso()
    bus = _Bus()
    psz, pval = cfg["padding_size"], 0xAA
    dec = iso.IsoTpActiveDecoder(bus, [IDS[0], IDS[1]], [TX[0], TX[1]], padding_size=psz,
                                 padding_value=pval)
    which = cfg.get("which", 1)
    Ls = cfg.get("Ls") or [cfg["L"]]
    for j, L in enumerate(Ls):  # several telegrams in a row on the same id
        payload, frames = _segments(sx, f"p{j}" if len(Ls) > 1 else "p", L, cfg["fs"], cfg["pad"])
        got = []
        fcs = 0  # flow-control frames sent for this transfer so far
        for i, fr in enumerate(frames):
            if cfg.get("intruder_at") == i:
                # a first frame on the OTHER id arrives in the middle of this transfer: it is
                # answered on its own tx id and leaves this transfer's block bookkeeping alone
                other = 1 - which
                _, oframes = _segments(sx, "q", 20, cfg["fs"], cfg["pad"])
                b0 = len(bus.sent)
                list(dec.decode_rx_frame(IDS[other], oframes[0]))
                onew = bus.sent[b0:]
                sx.require(len(onew) == 1 and onew[0].arbitration_id == TX[other],
                           "first-frame-on-another-id-is-answered-on-its-own-tx-id")
            before = len(bus.sent)
            got += list(dec.decode_rx_frame(IDS[which], fr))
            new = bus.sent[before:]
            fcs += len(new)
            if len(frames) > 257:
                # block size 255: by the time 256 consecutive frames have been processed the
                # second clear-to-send is out; not before the 255th
                if i <= 254:
                    sx.require(fcs == 1, "no-flow-control-inside-a-block")
                if i == 256:
                    sx.require(fcs >= 2, "next-block-is-cleared-after-255-consecutive-frames")
            is_first = len(frames) > 1 and i == 0
            if is_first:
                sx.require(len(new) == 1, "one-flow-control-per-first-frame")
                if new:
                    m = new[0]
                    sx.require(m.arbitration_id == TX[which], "flow-control-sent-on-the-paired-tx-id")
                    d = bytes(m.data)
                    want = bytes([0x30, 0xFF, 0x00]) + bytes([pval] * max(0, psz - 3))
                    sx.require(d == want, "flow-control-is-clear-to-send")
            elif len(frames) > 1 and i <= 255:
                sx.require(len(new) == 0, "no-flow-control-inside-a-block")
            for m in new:
                # whatever the decoder sends is a clear-to-send on the tx id paired with this rx id
                sx.require(m.arbitration_id == TX[which], "flow-control-sent-on-the-paired-tx-id")
                sx.require(bytes(m.data)[:3] == bytes([0x30, 0xFF, 0x00]), "flow-control-is-clear-to-send")
        if len(frames) > 257:
            ncf = len(frames) - 1
            # one clear-to-send per first frame and one per block of 255 consecutive frames
            sx.require(1 + ncf // 256 <= fcs <= 1 + (ncf + 254) // 255,
                       "one-flow-control-per-block-of-consecutive-frames")
        sx.require(len(got) == 1, "telegram-reported-exactly-once")
        if got:
            sx.require(got[0][1] == payload, "telegram-content")


HARNESSES = {
    "single": {"build": lambda c: None, "run": run_single, "width": 32,
               "must_cover": ["require:telegram-content"]},
    "sequence": {"build": lambda c: None, "run": run_sequence, "width": 32,
                 "must_cover": ["require:telegram-content"]},
    "interleave": {"build": lambda c: None, "run": run_interleave, "width": 32,
                   "must_cover": ["require:telegram-content", "require:flow-control-frame-reports-nothing",
                                  "require:unrelated-id-reports-nothing"],
                   "limits": {"quick": explore.Limits(max_paths=50000, wall_s=600),
                              "thorough": explore.Limits(max_paths=500000, wall_s=3000)}},
    "isolation": {"build": lambda c: None, "run": run_isolation, "width": 32,
                  "must_cover": ["require:other-id-state-untouched:buffer", "ref:complete",
                                 "ref:first", "require:unrelated-id-reports-nothing"]},
    "active": {"build": lambda c: None, "run": run_active, "width": 32,
               "must_cover": ["require:flow-control-is-clear-to-send", "require:telegram-content"]},
}


def configs(tier, seed):
    out = []
    FS_FD = [12, 16, 20, 24, 32, 48, 64]
    if tier == "quick":
        Ls = list(range(1, 41)) + [62, 63, 111, 112, 113, 118, 119, 120, 4094, 4095]
        fss = [8, 12, 64]
        seqs = [(3, 9), (9, 3), (20, 20), (7, 8, 6)]
        inter = [(((9,), (3,)), 1), (((9,), (10,)), 0), (((3,), (3,), (3,)), 1), (((10,), (3,)), 1),
                 (((3, 9), (9, 9)), 0), (((9, 3), (9,)), 1)]
        act = [(L, 8, ps) for L in (1, 7, 8, 20, 120, 1800, 4095) for ps in (0, 8)]
    else:
        Ls = list(range(1, 401)) + list(range(401, 4090, 53)) + \
            [1784, 1785, 1786, 1791, 1792, 1793, 4089, 4090, 4091, 4092, 4093, 4094, 4095]
        fss = [8] + FS_FD
        seqs = [c for c in itertools.product([1, 7, 8, 13, 14, 20, 112, 113], repeat=2)] + \
            [c for c in itertools.product([1, 7, 8, 14], repeat=3)] + \
            [(7, 8, 6), (8, 8, 8), (1, 20, 1), (14, 13, 112), (4095, 1, 4095), (1, 1, 1, 1, 8)]
        inter = [(((9,), (3,)), 1), (((9,), (10,)), 1), (((3,), (3,), (3,)), 2), (((10,), (3,)), 2),
                 (((9,), (9,), (3,)), 0), (((14,), (9,)), 0), (((16,), (3,)), 1),
                 (((3, 9), (9, 9)), 1), (((9, 3), (9,)), 2), (((9, 9), (14, 9)), 0),
                 (((9, 9), (9,), (9,)), 0), (((9,), (9,), (9,)), 1), (((15,), (10,)), 1),
                 (((3, 3), (3, 3), (3,)), 1), (((9, 3), (3, 9)), 2), (((20,), (3,), (3,)), 1)]
        act = [(L, fs_, ps) for L in (1, 6, 7, 8, 13, 14, 20, 21, 112, 113, 120, 1800, 4095)
               for ps in (0, 3, 8) for fs_ in (8,)] + [(L, 64, ps) for L in (63, 70, 200) for ps in (0, 64)]
    for fs in fss:
        for L in (Ls if fs == 8 else ([1, 7, 63, 64, 70, 130, 4095] if tier == "quick" else
                                    list(range(1, 201)) + [250, 251, 252, 1000, 4094, 4095])):
            if fs > 8 and L > 7 and L <= fs - 2:
                continue  # CAN FD would use an escape-length single frame (not in the envelope)
            for pad in ([False, True] if (fs == 8 or L in (1, 9, 70)) else [True]):
                out.append({"id": f"single/fs{fs}/L{L}/pad{int(pad)}", "harness": "single", "L": L,
                            "fs": fs, "pad": pad})
    for rxid in (0x18DAF110, 0x1FFFFFFF, 0x7):
        for L, fs in ((5, 8), (20, 8), (70, 64)):
            out.append({"id": f"single/rx{rxid:x}/fs{fs}/L{L}", "harness": "single", "L": L, "fs": fs,
                        "pad": True, "rxid": rxid})
    for s in seqs:
        out.append({"id": "sequence/" + "-".join(map(str, s)), "harness": "sequence", "Ls": list(s),
                    "fs": 8, "pad": True})
    for s, extra in inter:
        out.append({"id": "interleave/" + "_".join("-".join(map(str, t)) for t in s) + f"/x{extra}",
                    "harness": "interleave", "Ls": [list(t) for t in s], "fs": 8, "pad": True,
                    "extra": extra})
    iso_ms = [(None, 3), (3, None), (6, 6), (None, None, 2), (5, 0, None)] if tier == "quick" else \
        [(a, b) for a in (None, 0, 3, 6, 7) for b in (None, 0, 3, 6, 7)] + \
        [(None, None, 2), (5, 0, None), (6, 6, 6), (7, None, 13)]
    for ms in iso_ms:
        for fl in ([1, 2, 8] if tier == "quick" else [0, 1, 2, 3, 7, 8]):
            out.append({"id": "isolation/" + "-".join(map(str, ms)) + f"/f{fl}",
                        "harness": "isolation", "ms": list(ms), "flen": fl})
    for L, fs, ps in act:
        out.append({"id": f"active/L{L}/ps{ps}", "harness": "active", "L": L, "fs": fs, "pad": True,
                    "padding_size": ps})
    for at in ((100,) if tier == "quick" else (1, 100, 254, 255)):
        out.append({"id": f"active/L1900/intruder{at}", "harness": "active", "L": 1900, "fs": 8,
                    "pad": True, "padding_size": 8, "intruder_at": at})
    for Ls in ([(20, 20), (20, 1, 20), (9, 120, 8)] if tier == "quick" else
               [(20, 20), (20, 1, 20), (9, 120, 8), (8, 8, 8), (4095, 9), (9, 1, 1, 9)]):
        for ps in (0, 8):
            out.append({"id": "active/seq" + "-".join(map(str, Ls)) + f"/ps{ps}", "harness": "active",
                        "Ls": list(Ls), "L": Ls[0], "fs": 8, "pad": True, "padding_size": ps})
    return out


BOUNDS = {
    "quick": {"telegram_lengths": "1..40, 62, 63, 111..113, 118..120, 4094, 4095 (classic 8-byte "
                                  "frames), payload and padding bytes symbolic",
              "sequences": "2..3 telegrams per id", "interleavings": "2..3 ids, <= 6 frames, one "
              "inserted flow-control / unrelated-id frame; schedule symbolic (value-forked)"},
    "thorough": {"telegram_lengths": "classic frames: 1..400, every 53rd length to 4089, boundaries "
                                     "to 4095; FD frame sizes 12,16,20,24,32,48,64: 1..200 + boundaries",
                 "sequences": "all pairs over {1,7,8,13,14,20,112,113}, all triples over {1,7,8,14} + "
                 "long ones", "interleavings": "up to 3 ids, <= 8 frames, up to 2 inserted frames"},
}
STUBS = ["bitstruct -> models.bitstruct_model (py variant, which isotp_state_machine imports)",
         "bytearray()/bytes()/int() shims", "can.BusABC -> recording stub"]
ASSUMPTIONS = [
    "frames are produced by the reference segmenter models/isotp_ref.py (ISO 15765-2: SF, FF with "
    "12-bit length, CF with SN mod 16, padding of the last frame)",
    "CAN-FD single frames with escape length (payload 8..62 in one frame) and first frames with "
    "32-bit length are outside the envelope (odxtools does not implement them)",
    "text log formats are checked at witness level only: one concrete instance per explored path "
    "(regular expressions cannot carry symbolic bytes)",
]
