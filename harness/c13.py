"""C13 - malformed or lossy CAN traffic never crashes or fabricates telegrams.

Three harnesses on the real IsoTpStateMachine.decode_rx_frame:
  hist    : k arbitrary frames (all bytes symbolic, lengths enumerated) from the initial state,
            lock-step against the reference reassembler;
  step    : ONE arbitrary frame from an ARBITRARY state (announced length, sequence index and
            buffer contents symbolic; buffer length enumerated) - the inductive step: it shows
            that the implementation state keeps corresponding to the reference state, which
            extends the lock-step result to histories of any length;
  recover : from an arbitrary state, a well-formed transfer produced by the reference segmenter
            is reported exactly once, complete, at its last frame.
"""
import itertools

from symx import core, explore
from symx.core import s_and, s_or, s_not, s_implies
from models import isotp_ref

RX = 0x7E8


_CLS = {}


def _mk():
    """a state machine whose callbacks use their telegram index the way the snoop tool's
    verbose decoder does (self.can_rx_id(idx), self.telegram_data(idx))"""
    import odxtools.isotp_state_machine as iso
    if "cls" not in _CLS:
        class Recording(iso.IsoTpStateMachine):
            def _use(self, idx):
                self.can_rx_id(idx)
                self.telegram_data(idx)

            def on_single_frame(self, idx, payload):
                self._use(idx)

            def on_first_frame(self, idx, payload):
                self._use(idx)

            def on_consecutive_frame(self, idx, seg, payload):
                self._use(idx)

            def on_flow_control_frame(self, idx, flag):
                self._use(idx)

            def on_sequence_error(self, idx, expected, got):
                self._use(idx)

            def on_frame_type_error(self, idx, ft):
                self._use(idx)

            def on_telegram_complete(self, idx, payload):
                self._use(idx)

        _CLS["cls"] = Recording
    return _CLS["cls"]([RX])


def _feed(sx, sm, ref, fr, tag):
    try:
        out = list(sm.decode_rx_frame(RX, fr))
    except Exception as e:  # noqa: BLE001 - any exception class is a violation of C13
        sx.observe(f"{tag}.exception", type(e).__name__)
        if sx.sym and __import__("os").environ.get("SYMX_DEBUG"): __import__("traceback").print_exc()
        sx.fail("frame-processing-never-raises")
        raise AssertionError("unreachable")
    kind, tel, must = ref.step(RX, fr)
    sx.cover("ref:" + kind)
    sx.require(len(out) <= 1, "at-most-one-telegram-per-frame")
    if out:
        sx.require(tel is not None, "no-fabricated-telegram")
        rid, data = out[0]
        sx.require(rid == RX, "telegram-id")
        sx.require(len(data) == len(tel), "telegram-length")
        sx.require(data == tel, "telegram-content")
        sx.observe(f"{tag}.telegram", core.frozen(data))
    elif tel is not None:
        sx.require(s_not(must), "complete-transfer-is-reported")
    sx.observe(f"{tag}.n_out", len(out))
    return out


class _Bus:
    def __init__(self):
        self.sent = []

    def send(self, msg):
        self.sent.append(msg)


def _build(cfg):
    import odxtools.isotp_state_machine  # noqa
    import odxtools.cli.snoop  # noqa  (before the shims are installed)
    return None


def run_hist(sx, cfg, env):
    if cfg.get("verbose"):
        # the snoop tool's verbose decoder (prints; uses can_rx_id(idx) in its callbacks)
        import contextlib
        import io
        import odxtools.cli.snoop as snoop
        import odxtools.isotp_state_machine as iso
        with contextlib.redirect_stdout(io.StringIO()):
            if cfg.get("active"):
                sm = snoop.init_verbose_state_machine(iso.IsoTpActiveDecoder, _Bus(), [RX], [0x7E0],
                                                      padding_size=8)
            else:
                sm = snoop.init_verbose_state_machine(iso.IsoTpStateMachine, [RX])
            return _run_hist(sx, cfg, sm)
    if cfg.get("active"):
        import odxtools.isotp_state_machine as iso
        sm = iso.IsoTpActiveDecoder(_Bus(), [RX], [0x7E0], padding_size=cfg.get("padding", 0))
    else:
        sm = _mk()
    return _run_hist(sx, cfg, sm)


def _run_hist(sx, cfg, sm):
    ref = isotp_ref.RefReassembler([RX])
    frames, outs = [], []
    for i, n in enumerate(cfg["lens"]):
        fr = sx.bytes(f"f{i}", n)
        frames.append(fr)
        outs += _feed(sx, sm, ref, fr, f"f{i}")
    if not sx.sym and not cfg.get("active") and not cfg.get("verbose"):
        _check_text_logs(sx, frames, outs)


def _check_text_logs(sx, frames, outs):
    """witness level (concrete replay of each path's model): the same history as a candump log
    file read through read_telegrams gives the same telegrams, and a log whose lines are cut off
    in the middle of a byte ("truncated frames") is still processed without an exception"""
    import asyncio
    import contextlib
    import io
    import odxtools.isotp_state_machine as iso
    if any(len(f) == 0 for f in frames):
        return  # the text formats cannot express an empty frame

    def read(text):
        sm = iso.IsoTpStateMachine([RX])

        async def go():
            return [(t[0], bytes(t[1])) async for t in sm.read_telegrams(io.StringIO(text))]
        with contextlib.redirect_stdout(io.StringIO()), contextlib.redirect_stderr(io.StringIO()):
            return asyncio.run(go())
    lines = [f"(1600000000.000000) can0 {RX:03X}#" + bytes(f).hex().upper() for f in frames]
    try:
        got = read("\n".join(lines) + "\n")
    except Exception:  # noqa: BLE001
        sx.fail("witness:log-file-processing-never-raises")
        return
    sx.require(got == [(i, bytes(d)) for i, d in outs], "witness:log-file-gives-same-telegrams")
    try:
        read("\n".join(ln[:-1] for ln in lines) + "\n")
    except Exception:  # noqa: BLE001
        sx.fail("witness:truncated-log-line-never-raises")


def _arbitrary_state(sx, sm, ref, m):
    n = sx.int("n", 0, 4095)
    last = sx.int("last", 0, 15)
    sm._telegram_specified_len[0] = n
    sm._telegram_last_rx_fragment_idx[0] = last
    if m is None:
        sm._telegram_data[0] = None
        ref.cur[RX] = None
    else:
        buf = sx.bytes("buf", m, mutable=True)
        sm._telegram_data[0] = buf
        ref.cur[RX] = [n, core.frozen(buf), last]
    return n, last


def run_step(sx, cfg, env):
    sm = _mk()
    ref = isotp_ref.RefReassembler([RX])
    _arbitrary_state(sx, sm, ref, cfg["m"])
    fr = sx.bytes("f", cfg["flen"])
    _feed(sx, sm, ref, fr, "f")
    # the implementation state still corresponds to the reference state (inductive invariant)
    c = ref.cur[RX]
    d = sm._telegram_data[0]
    sx.require((c is None) == (d is None), "state-correspondence:active")
    if c is not None and d is not None:
        sx.require(len(d) == len(c[1]), "state-correspondence:buffer-length")
        sx.require(d == c[1], "state-correspondence:buffer")
        sx.require(sm._telegram_specified_len[0] == c[0], "state-correspondence:announced-length")
        sx.require(sm._telegram_last_rx_fragment_idx[0] == c[2], "state-correspondence:sequence")


def run_recover(sx, cfg, env):
    sm = _mk()
    ref = isotp_ref.RefReassembler([RX])
    _arbitrary_state(sx, sm, ref, cfg["m"])
    L = cfg["L"]
    payload = sx.bytes("payload", L)
    frames = isotp_ref.segment(list(payload), frame_size=cfg.get("fs", 8))
    got = []
    for i, fr in enumerate(frames):
        frb = core.mkbytes([core.low8(x) for x in fr])
        out = _feed(sx, sm, ref, frb, f"w{i}")
        if i < len(frames) - 1:
            sx.require(len(out) == 0, "no-early-report")
        got += out
    sx.require(len(got) == 1, "well-formed-transfer-reported-once")
    if got:
        sx.require(got[0][1] == payload, "well-formed-transfer-content")


HARNESSES = {
    "hist": {"build": _build, "run": run_hist, "width": 32,
             "must_cover": ["ref:single", "ref:first", "ref:empty", "ref:other",
                            "require:telegram-content"],
             "limits": {"quick": explore.Limits(max_paths=60000, wall_s=900),
                        "thorough": explore.Limits(max_paths=400000, wall_s=3000)}},
    "step": {"build": lambda cfg: None, "run": run_step, "width": 32,
             "must_cover": ["ref:complete", "ref:sequence-error", "ref:stray-consecutive",
                            "ref:consecutive", "require:state-correspondence:buffer"]},
    "recover": {"build": lambda cfg: None, "run": run_recover, "width": 32,
                "must_cover": ["require:well-formed-transfer-content"]},
}


def configs(tier, seed):
    out = []
    if tier == "quick":
        hist = [(a,) for a in range(0, 9)] + list(itertools.product([0, 1, 2, 3, 8], repeat=2)) + \
            list(itertools.product([2, 8], repeat=3))
        ms = [None, 0, 1, 5, 6, 7, 12, 13]
        flens = [0, 1, 2, 3, 7, 8]
        rec = [(m, L) for m in (None, 0, 6, 9) for L in (1, 7, 8, 13, 14, 20)]
    else:
        hist = [(a,) for a in range(0, 9)] + list(itertools.product(range(0, 9), repeat=2)) + \
            list(itertools.product([0, 1, 2, 3, 8], repeat=3)) + \
            list(itertools.product([2, 8], repeat=4))
        ms = [None] + list(range(0, 24))
        flens = list(range(0, 9)) + [12, 16, 64]
        rec = [(m, L) for m in (None, 0, 1, 6, 9, 14) for L in list(range(0, 24)) + [62, 63, 64]]
    for lens in hist:
        out.append({"id": "hist/" + "-".join(map(str, lens)), "harness": "hist", "lens": list(lens)})
    for lens in ([(8,), (0,), (1,), (8, 8), (2, 8), (8, 2, 8)] if tier == "quick" else
                 [(a,) for a in range(9)] + list(itertools.product([0, 1, 2, 8], repeat=2)) +
                 list(itertools.product([2, 8], repeat=3))):
        out.append({"id": "active-hist/" + "-".join(map(str, lens)), "harness": "hist",
                    "lens": list(lens), "active": True, "padding": 8})
    for lens in ([(8,), (1,), (8, 8), (2, 8)] if tier == "quick" else
                 [(a,) for a in range(9)] + list(itertools.product([0, 1, 2, 8], repeat=2))):
        for act in (False, True):
            out.append({"id": f"verbose-hist/{'active' if act else 'passive'}/" +
                        "-".join(map(str, lens)), "harness": "hist", "lens": list(lens),
                        "verbose": True, "active": act})
    for m in ms:
        for fl in flens:
            out.append({"id": f"step/m{m}/f{fl}", "harness": "step", "m": m, "flen": fl})
    for m, L in rec:
        out.append({"id": f"recover/m{m}/L{L}", "harness": "recover", "m": m, "L": L})
    return out


BOUNDS = {
    "quick": {"hist": "k<=3 frames; lengths {0..8} (k=1), {0,1,2,3,8}^2, {2,8}^3; every byte symbolic",
              "step": "state: announced length 0..4095, sequence index 0..15 symbolic, buffer "
                      "None or length in {0,1,5,6,7,12,13} with symbolic contents; frame length "
                      "in {0,1,2,3,7,8}",
              "recover": "payload length in {1,7,8,13,14,20} from states with buffer None/0/6/9"},
    "thorough": {"hist": "k<=4; all lengths 0..8 for k<=2, {0,1,2,3,8}^3, {2,8}^4",
                 "step": "buffer None or length 0..23; frame lengths 0..8, 12, 16, 64",
                 "recover": "payload 0..23, 62..64 bytes"},
}
STUBS = ["bitstruct -> models.bitstruct_model (c variant)", "bytearray()/bytes()/int() shims"]
ASSUMPTIONS = [
    "one CAN id per state machine instance in this check (multi-id interleavings: C12)",
    "the inductive step assumes nothing about the state except the types of its three fields",
    "outside the claim: buffers longer than the enumerated lengths (the code does not branch on "
    "the buffer length except against the announced length, which is symbolic)",
]
