"""C17 - strict mode is honoured everywhere; lenient mode changes nothing valid.

On every path the same operation on the same symbolic inputs is run three times: in strict mode,
after flipping odxtools.exceptions.strict_mode to False AT RUN TIME, and after flipping it back.
  1. strict succeeds  =>  lenient succeeds with the identical result
  2. lenient raises   =>  strict raised as well (lenient mode only ever downgrades)
  3. flipping back restores exactly the strict outcome (result or exception class)
Operations: Request.encode with representable and unrepresentable values (atoms of C04) and
Request.decode of arbitrary bytes (atoms of C05, where invalid string data is what differs).
"""
import json
import logging

from symx import core, explore
from symx.core import s_and, s_not
from harness import codec_common as cc
from harness import c05

logging.getLogger("odxtools").setLevel(logging.CRITICAL)


def _outcome(fn):
    from odxtools.exceptions import OdxError
    try:
        return ("ok", fn())
    except OdxError as e:
        return ("err", "DecodeError" if type(e).__name__ == "DecodeError" else
                ("EncodeError" if type(e).__name__ == "EncodeError" else "OdxError"))


def _three(sx, op, same):
    import odxtools.exceptions as ex
    assert ex.strict_mode is True
    try:
        try:
            s = _outcome(op)
        except Exception:  # noqa: BLE001  a foreign exception in strict mode is a C04/C05 matter;
            sx.cover("strict-foreign")  # the mode switch has no obligation on such an input
            return
        ex.strict_mode = False
        try:
            l = _outcome(op)
        except Exception as e:  # noqa: BLE001  foreign exceptions in lenient mode: undefined
            l = ("foreign", type(e).__name__)   # behaviour is documented; not a C17 obligation
        ex.strict_mode = True
        s2 = _outcome(op)
    finally:
        ex.strict_mode = True
    sx.observe("strict", s[0] if s[0] != "err" else s[1])
    sx.observe("lenient", l[0] if l[0] == "ok" else l[1])
    if s[0] == "ok":
        sx.cover("strict-ok")
        sx.require(l[0] == "ok", "lenient-succeeds-where-strict-succeeds")
        if l[0] == "ok":
            sx.require(same(s[1], l[1]), "lenient-result-identical-to-strict-result")
    else:
        sx.cover("strict-error")
        if l[0] == "ok":
            sx.cover("downgraded")
    if l[0] == "err":
        sx.require(s[0] == "err", "lenient-raises-only-where-strict-raises")
    if l[0] == "foreign":
        # a problem that strict mode reports as the library's error must be downgraded (or stay
        # a library error) in lenient mode, not turn into a foreign exception
        sx.observe("lenient-foreign", l[1])
        sx.fail("lenient-mode-downgrades-library-errors")
    sx.require(s2[0] == s[0], "re-enabling-strict-restores-the-outcome")
    if s[0] == "ok" and s2[0] == "ok":
        sx.require(same(s[1], s2[1]), "re-enabling-strict-restores-the-result")
    elif s[0] == "err" and s2[0] == "err":
        sx.require(s[1] == s2[1], "re-enabling-strict-restores-the-error")


def _same_bytes(a, b):
    return s_and(len(a) == len(b), core.frozen(a) == core.frozen(b))


def run_enc(sx, cfg, env):
    rq = env["rq"]
    v = cc.the_value(sx, cfg)
    _three(sx, lambda: rq.encode(val=v), _same_bytes)


def _same_val(a, b):
    x, y = a.get("val"), b.get("val")
    if isinstance(x, (bytes, bytearray)) and isinstance(y, (bytes, bytearray)):
        return _same_bytes(x, y)
    if isinstance(x, float) and isinstance(y, float):
        return cc._feq(x, y)
    return x == y


def run_dec(sx, cfg, env):
    rq = env["rq"]
    msg = sx.bytes("msg", cfg["mlen"])
    _three(sx, lambda: rq.decode(msg), _same_val)


def _same_tree(a, b):
    """deep equality of two decode results as a formula"""
    if hasattr(a, "trouble_code") and hasattr(b, "trouble_code"):
        return a.trouble_code == b.trouble_code
    if isinstance(a, dict) and isinstance(b, dict):
        if sorted(a.keys()) != sorted(b.keys()):
            return False
        return s_and(*[_same_tree(a[k], b[k]) for k in a]) if a else True
    if isinstance(a, (list, tuple)) and isinstance(b, (list, tuple)):
        if len(a) != len(b):
            return False
        return s_and(*[_same_tree(x, y) for x, y in zip(a, b)]) if a else True
    if isinstance(a, (bytes, bytearray)) and isinstance(b, (bytes, bytearray)):
        return _same_bytes(a, b)
    if isinstance(a, float) and isinstance(b, float):
        return cc._feq(a, b)
    if a is None or b is None:
        return a is b
    return a == b


def run_compdec(sx, cfg, env):
    """Request.decode of arbitrary bytes through the nested descriptions, three runs"""
    import warnings
    obj = env["obj"]
    msg = sx.bytes("msg", cfg["mlen"])

    def op():
        with warnings.catch_warnings():
            warnings.simplefilter("ignore")
            return obj.decode(msg)

    _three(sx, op, _same_tree)


# ---------------------------------------------------------------------------
# two copies of the library: A (imported strict, flag flipped at RUN time) and B (imported with
# the flag already False).  A module that binds the flag at import time ("from .exceptions import
# strict_mode") behaves differently in the two copies.
# ---------------------------------------------------------------------------
def import_copy_b():
    import catalogue.build  # noqa  (make sure copy A of the builder exists before it is shadowed)
    import importlib.abc
    import importlib.machinery
    import sys
    mine = lambda k: k == "odxtools" or k.startswith("odxtools.") or k == "catalogue.build"  # noqa
    saved = {k: v for k, v in sys.modules.items() if mine(k)}
    for k in saved:
        del sys.modules[k]

    class Finder(importlib.abc.MetaPathFinder):
        def find_spec(self, name, path, target=None):
            if name != "odxtools.exceptions":
                return None
            spec = importlib.machinery.PathFinder.find_spec(name, path)
            orig = spec.loader.exec_module

            def exec_module(module):
                orig(module)
                module.strict_mode = False

            spec.loader.exec_module = exec_module
            return spec

    f = Finder()
    sys.meta_path.insert(0, f)
    try:
        import catalogue.build as build_b
        import odxtools.request  # noqa
        import odxtools.isotp_state_machine  # noqa
        mods_b = {k: v for k, v in sys.modules.items() if k == "odxtools" or k.startswith("odxtools.")}
    finally:
        sys.meta_path.remove(f)
        for k in [k for k in sys.modules if mine(k)]:
            del sys.modules[k]
        sys.modules.update(saved)
        # importing a submodule also rebinds the attribute of its parent package
        import catalogue
        if "catalogue.build" in saved:
            catalogue.build = saved["catalogue.build"]
    assert mods_b["odxtools.exceptions"].strict_mode is False
    return build_b, mods_b


def build_two(cfg):
    env = cc.build_atom(cfg)
    build_b, mods_b = import_copy_b()
    env["rq_b"] = build_b.build_request(cc.request_spec(cfg))
    env["extra_modules"] = mods_b
    return env


def _outcome2(fn):
    try:
        return ("ok", fn())
    except Exception as e:  # noqa: BLE001  (the two copies have distinct exception classes)
        names = [c.__name__ for c in type(e).__mro__]
        if "OdxError" in names:
            return ("err", [n for n in ("DecodeError", "EncodeError", "OdxError") if n in names][0])
        return ("foreign", type(e).__name__)


def _two(sx, env, op_a, op_b, same):
    import sys
    ex_a = sys.modules["odxtools.exceptions"]
    ex_b = env["extra_modules"]["odxtools.exceptions"]
    try:
        for mode in (False, True):
            ex_a.strict_mode = mode
            ex_b.strict_mode = mode
            a, b = _outcome2(op_a), _outcome2(op_b)
            tag = "strict" if mode else "lenient"
            sx.observe(tag, [a[0] if a[0] == "ok" else a[1], b[0] if b[0] == "ok" else b[1]])
            sx.cover(tag + "-" + a[0])
            sx.require(a[0] == b[0], f"{tag}:flag-set-at-run-time-equals-flag-set-at-import")
            if a[0] == b[0] == "ok":
                sx.require(same(a[1], b[1]), f"{tag}:flag-set-at-run-time-equals-flag-set-at-import")
            elif a[0] == b[0]:
                sx.require(a[1] == b[1], f"{tag}:flag-set-at-run-time-equals-flag-set-at-import")
    finally:
        ex_a.strict_mode = True
        ex_b.strict_mode = False


def run_two_enc(sx, cfg, env):
    v = cc.the_value(sx, cfg)
    _two(sx, env, lambda: env["rq"].encode(val=v), lambda: env["rq_b"].encode(val=v), _same_bytes)


def run_two_dec(sx, cfg, env):
    msg = sx.bytes("msg", cfg["mlen"])
    _two(sx, env, lambda: env["rq"].decode(msg), lambda: env["rq_b"].decode(msg), _same_val)


def _c17_layers():
    from harness.c06 import C, V, rq
    U8 = {"dt": "A_UINT32", "bl": 8}
    PC = lambda name, value: dict(kind="physconst", name=name, dop=U8, value=value)  # noqa: E731
    return {
        # two coding objects of one service share their constant prefix; the first one carries a
        # PHYS-CONST behind a VALUE parameter: where it does not fit, strict mode reports a
        # decode error, lenient mode a warning
        "shared-prefix-physconst": {"services": [
            {"name": "A", "request": rq(C("sid", 0x22), V("did")),
             "pos": [rq(C("sid", 0x62), V("kind"), PC("pc", 7)),
                     rq(C("sid", 0x62), V("kind"), V("data"))]},
            {"name": "B", "request": rq(C("sid", 0x23)),
             "pos": [rq(C("sid", 0x63), PC("pc", 1), V("x"))]}]},
    }


def build_layer(cfg):
    from harness import c06
    own = _c17_layers()
    if cfg["layer"] in own:
        import odxtools.isotp_state_machine  # noqa
        from catalogue import build
        return {"layer": build.build_layer(own[cfg["layer"]]), "spec": own[cfg["layer"]]}
    return c06.build_layer(cfg)


def _cname(m):
    return "<none>" if m.coding_object is None else m.coding_object.short_name


def _msgset(res):
    return sorted((m.service.short_name, _cname(m)) for m in res)


def _same_msgs(a, b):
    if _msgset(a) != _msgset(b):
        return False
    conds = []
    for x in a:
        for y in b:
            if (x.service.short_name, _cname(x)) == (y.service.short_name, _cname(y)):
                for k, v in x.param_dict.items():
                    conds.append(y.param_dict.get(k) == v)
    return s_and(*conds) if conds else True


def run_layer(sx, cfg, env):
    """DiagLayer.decode of every message in strict / lenient / strict-again mode: where strict
    mode reports interpretations, lenient mode reports exactly the same ones"""
    import warnings
    layer = env["layer"]
    msg = sx.bytes("msg", cfg["mlen"])
    if cfg.get("first") is not None:
        sx.assume(msg[0] == cfg["first"])
        if cfg.get("second_hi") is not None:
            sx.assume(msg[1] >> 4 == cfg["second_hi"])
    else:
        sx.assume(s_and(*[msg[0] != b for b in cfg["not_first"]]))

    def op():
        with warnings.catch_warnings():
            warnings.simplefilter("ignore")
            return layer.decode(msg)

    _three(sx, op, _same_msgs)


def run_respenc(sx, cfg, env):
    """Response.encode with a request echo (MATCHING-REQUEST-PARAM): without a triggering request,
    or with one that is too short, strict mode reports an encode error; lenient mode downgrades it"""
    obj = env["obj"]
    a = sx.int("a", 0, 255)
    n = cfg["request_len"]
    req = None if n is None else sx.bytes("request", n)

    def op():
        kw = {"a": a}
        if req is not None or cfg.get("explicit_none"):
            kw["coded_request"] = None if req is None else core.frozen(req)
        return obj.encode(**kw)

    _three(sx, op, _same_bytes)


LIM = {"quick": explore.Limits(max_paths=4000, wall_s=200), "thorough": explore.Limits(max_paths=40000, wall_s=900)}
HARNESSES = {
    "enc": {"build": cc.build_atom, "run": run_enc, "width": 80, "limits": LIM,
            "must_cover": ["strict-ok", "strict-error", "downgraded"]},
    "dec": {"build": cc.build_atom, "run": run_dec, "width": 80, "limits": LIM,
            "must_cover": ["strict-ok", "strict-error", "downgraded"]},
    "two-enc": {"build": build_two, "run": run_two_enc, "width": 80, "limits": LIM,
                "must_cover": ["lenient-ok", "strict-ok", "strict-err"]},
    "two-dec": {"build": build_two, "run": run_two_dec, "width": 80, "limits": LIM,
                "must_cover": ["lenient-ok", "strict-ok", "strict-err"]},
    "compdec": {"build": None, "run": run_compdec, "width": 80, "limits": LIM,
                "must_cover": ["strict-ok", "strict-error"]},
    "layer": {"build": build_layer, "run": run_layer, "width": 80, "limits": LIM,
              "must_cover": ["strict-ok", "strict-error"]},
    "respenc": {"build": None, "run": run_respenc, "width": 80, "limits": LIM,
                "must_cover": ["strict-ok", "strict-error"]},
}
from harness import composite as _cp  # noqa: E402
HARNESSES["compdec"]["build"] = _cp.build_composite
HARNESSES["respenc"]["build"] = _cp.build_composite


def _fresh(name):
    """the description objects are rebuilt for every path and every replay: state that a lenient
    run leaves behind on them (registered DTCs, caches) must show up in the strict run that
    follows on the SAME path, and must not leak into other paths"""
    build, run = HARNESSES[name]["build"], HARNESSES[name]["run"]
    HARNESSES[name]["run"] = lambda sx, cfg, env: run(sx, cfg, build(cfg))


for _n in ("enc", "dec", "compdec", "layer", "respenc"):
    _fresh(_n)
STUBS = cc.STUBS + ["odxtools.exceptions.strict_mode is flipped by the harness itself (that is the "
                    "operation under test)", "logging of downgraded problems is silenced"]


# descriptions the standard does not allow (a string type with a numeric encoding): strict mode
# reports them, lenient mode substitutes a fallback - which must not stick once strict is back
ILLEGAL = [dict(dt="A_ASCIISTRING", enc="BCD-P", bl=16, bitpos=0, hl=True, bytepos=None, sidx=2),
           dict(dt="A_UTF8STRING", enc="1C", bl=16, bitpos=0, hl=True, bytepos=None, sidx=1),
           dict(dt="A_UNICODE2STRING", enc="BCD-UP", bl=16, bitpos=0, hl=True, bytepos=None, sidx=1),
           dict(dt="A_ASCIISTRING", enc="SM", dct="minmax", min=0, max=4, term="ZERO", tail=True,
                bitpos=0, bytepos=None, hl=True, sidx=2)]


def configs(tier, seed):
    out = []
    for a in cc.atoms(tier, seed) + ILLEGAL:
        c = dict(a)
        c.update(harness="enc", id="enc/" + cc.atom_id(a), tail=a.get("tail", True),
                 build={k: v for k, v in a.items() if k not in ("vlen", "sidx", "slen")})
        if a["dt"] == "A_UINT32" and a.get("enc") == "BCD-P":
            c["W"] = 48
        out.append(c)
    seen = set()
    for a in cc.atoms(tier, seed) + ILLEGAL:
        b = {k: v for k, v in a.items() if k not in ("vlen", "sidx", "slen")}
        key = json.dumps(b, sort_keys=True)
        if key in seen:
            continue
        seen.add(key)
        ml = c05.min_len(b)
        for n in sorted({0, ml - 1, ml, ml + 1}):
            if n < 0:
                continue
            c = dict(b)
            c.update(harness="dec", id=f"dec/{cc.atom_id(b)}/len{n}", build=b, mlen=n,
                     tail=b.get("tail", True))
            out.append(c)
    # two library copies: a subset of the atoms (every type / diag-coded type once or twice)
    picked = {}
    for a in cc.atoms(tier, seed):
        if a.get("cmname") or a.get("mask") is not None:
            continue
        key = (a["dt"], a.get("enc"), a.get("dct", "std"), a.get("term"), a.get("vlen"), a.get("sidx"),
               a.get("slen"))
        grp = (a["dt"], a.get("dct", "std"))
        picked.setdefault(grp, {})
        if key not in picked[grp] and len(picked[grp]) < (6 if tier == "quick" else 40):
            picked[grp][key] = a
    for grp in picked.values():
        for a in grp.values():
            b = {k: v for k, v in a.items() if k not in ("vlen", "sidx", "slen")}
            c = dict(a)
            c.update(harness="two-enc", id="two-enc/" + cc.atom_id(a), tail=a.get("tail", True), build=b)
            out.append(c)
            ml = c05.min_len(b)
            for n in (ml, ml + 1):
                d = dict(b)
                d.update(harness="two-dec", id=f"two-dec/{cc.atom_id(b)}/len{n}", build=b, mlen=n,
                         tail=b.get("tail", True))
                out.append(d)
    for name in ("table", "table-row-ref", "mux", "dtc", "dynlen-field", "static-field",
                 "endmarker-field-mid", "length-key", "structure-bytesize", "physconst-reserved",
                 "endmarker-field-limited-end-dop", "static-field-minmax-last", "mux-key-bits",
                 "mux-in-structure", "dynlen-field-signed-count", "length-key-limited-dop"):
        for n in ((2, 3, 4, 5) if tier == "quick" else range(0, 8)):
            if name == "length-key-limited-dop" and n > 4:
                continue  # every value of the key is a floating-point query
            if name == "endmarker-field-limited-end-dop" and n > (4 if tier == "quick" else 5):
                continue  # the probe of every item forks on the text table
            out.append({"id": f"compdec/{name}/len{n}", "harness": "compdec", "what": "request",
                        "name": name, "mlen": n, "build": {"what": "request", "name": name}})
    for n, en in ((None, False), (None, True), (0, False), (2, False), (3, False), (4, False)):
        out.append({"harness": "respenc", "what": "response", "name": "matching-request",
                    "request_len": n, "explicit_none": en,
                    "build": {"what": "response", "name": "matching-request"},
                    "id": f"respenc/matching-request/rq{n}{'x' if en else ''}"})
    for fb in (0x22, 0x62, 0x63):
        out.append({"harness": "layer", "layer": "shared-prefix-physconst", "mlen": 3, "first": fb,
                    "build": {"layer": "shared-prefix-physconst"},
                    "id": f"layer/shared-prefix-physconst/len3/b{fb:02x}"})
    for layer in ("negative-responses", "global-negative"):
        firsts = [0x10, 0x11, 0x50, 0x7F]
        for n in (3,):
            base = {"harness": "layer", "layer": layer, "mlen": n, "build": {"layer": layer}}
            for fb in firsts:
                if fb == 0x7F:
                    for hi in range(16):
                        out.append(dict(base, id=f"layer/{layer}/len{n}/b{fb:02x}/{hi:x}x", first=fb,
                                        second_hi=hi))
                else:
                    out.append(dict(base, id=f"layer/{layer}/len{n}/b{fb:02x}", first=fb))
            out.append(dict(base, id=f"layer/{layer}/len{n}/other", not_first=firsts))
    return out


BOUNDS = {"atoms": "as C04 (encode) and C05 (decode, message lengths {0, min-1, min, min+1})"}
ASSUMPTIONS = ["the flag is flipped at run time inside one interpreter, which is the scenario the "
               "property describes; a library imported while the flag is already False is not "
               "reachable (exceptions.py sets it to True at import)",
               "foreign (non-OdxError) exceptions in lenient mode are documented as undefined "
               "behaviour and are not counted here"]
