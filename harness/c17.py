"""C17 - strict mode is honoured everywhere; lenient mode changes nothing valid.

On every path the same operation on the same symbolic inputs is run three times: in strict mode,
after flipping odxtools.exceptions.strict_mode to False AT RUN TIME, and after flipping it back.
  1. strict succeeds  =>  lenient succeeds with the identical result
  2. lenient raises   =>  strict raised as well (lenient mode only ever downgrades)
  3. flipping back restores exactly the strict outcome (result or exception class)
Operations: Request.encode with representable and unrepresentable values (atoms of C04) and
Request.decode of arbitrary bytes (atoms of C05, where invalid string data is what differs).
"""
import json
import logging

from symx import core, explore
from symx.core import s_and, s_not
from harness import codec_common as cc
from harness import c05

logging.getLogger("odxtools").setLevel(logging.CRITICAL)


def _outcome(fn):
    from odxtools.exceptions import OdxError
    try:
        return ("ok", fn())
    except OdxError as e:
        return ("err", "DecodeError" if type(e).__name__ == "DecodeError" else
                ("EncodeError" if type(e).__name__ == "EncodeError" else "OdxError"))


def _three(sx, op, same):
    import odxtools.exceptions as ex
    assert ex.strict_mode is True
    try:
        s = _outcome(op)
        ex.strict_mode = False
        try:
            l = _outcome(op)
        except Exception as e:  # noqa: BLE001  foreign exceptions in lenient mode: undefined
            l = ("foreign", type(e).__name__)   # behaviour is documented; not a C17 obligation
        ex.strict_mode = True
        s2 = _outcome(op)
    finally:
        ex.strict_mode = True
    sx.observe("strict", s[0] if s[0] != "err" else s[1])
    sx.observe("lenient", l[0] if l[0] == "ok" else l[1])
    if s[0] == "ok":
        sx.cover("strict-ok")
        sx.require(l[0] == "ok", "lenient-succeeds-where-strict-succeeds")
        if l[0] == "ok":
            sx.require(same(s[1], l[1]), "lenient-result-identical-to-strict-result")
    else:
        sx.cover("strict-error")
        if l[0] == "ok":
            sx.cover("downgraded")
    if l[0] == "err":
        sx.require(s[0] == "err", "lenient-raises-only-where-strict-raises")
    if l[0] == "foreign":
        # a problem that strict mode reports as the library's error must be downgraded (or stay
        # a library error) in lenient mode, not turn into a foreign exception
        sx.observe("lenient-foreign", l[1])
        sx.fail("lenient-mode-downgrades-library-errors")
    sx.require(s2[0] == s[0], "re-enabling-strict-restores-the-outcome")
    if s[0] == "ok" and s2[0] == "ok":
        sx.require(same(s[1], s2[1]), "re-enabling-strict-restores-the-result")
    elif s[0] == "err" and s2[0] == "err":
        sx.require(s[1] == s2[1], "re-enabling-strict-restores-the-error")


def _same_bytes(a, b):
    return s_and(len(a) == len(b), core.frozen(a) == core.frozen(b))


def run_enc(sx, cfg, env):
    rq = env["rq"]
    v = cc.the_value(sx, cfg)
    _three(sx, lambda: rq.encode(val=v), _same_bytes)


def _same_val(a, b):
    x, y = a.get("val"), b.get("val")
    if isinstance(x, (bytes, bytearray)) and isinstance(y, (bytes, bytearray)):
        return _same_bytes(x, y)
    if isinstance(x, float) and isinstance(y, float):
        return cc._feq(x, y)
    return x == y


def run_dec(sx, cfg, env):
    rq = env["rq"]
    msg = sx.bytes("msg", cfg["mlen"])
    _three(sx, lambda: rq.decode(msg), _same_val)


def _same_tree(a, b):
    """deep equality of two decode results as a formula"""
    if hasattr(a, "trouble_code") and hasattr(b, "trouble_code"):
        return a.trouble_code == b.trouble_code
    if isinstance(a, dict) and isinstance(b, dict):
        if sorted(a.keys()) != sorted(b.keys()):
            return False
        return s_and(*[_same_tree(a[k], b[k]) for k in a]) if a else True
    if isinstance(a, (list, tuple)) and isinstance(b, (list, tuple)):
        if len(a) != len(b):
            return False
        return s_and(*[_same_tree(x, y) for x, y in zip(a, b)]) if a else True
    if isinstance(a, (bytes, bytearray)) and isinstance(b, (bytes, bytearray)):
        return _same_bytes(a, b)
    if isinstance(a, float) and isinstance(b, float):
        return cc._feq(a, b)
    if a is None or b is None:
        return a is b
    return a == b


def run_compdec(sx, cfg, env):
    """Request.decode of arbitrary bytes through the nested descriptions, three runs"""
    import warnings
    obj = env["obj"]
    msg = sx.bytes("msg", cfg["mlen"])

    def op():
        with warnings.catch_warnings():
            warnings.simplefilter("ignore")
            return obj.decode(msg)

    _three(sx, op, _same_tree)


def build_layer(cfg):
    from harness import c06
    return c06.build_layer(cfg)


def _cname(m):
    return "<none>" if m.coding_object is None else m.coding_object.short_name


def _msgset(res):
    return sorted((m.service.short_name, _cname(m)) for m in res)


def _same_msgs(a, b):
    if _msgset(a) != _msgset(b):
        return False
    conds = []
    for x in a:
        for y in b:
            if (x.service.short_name, _cname(x)) == (y.service.short_name, _cname(y)):
                for k, v in x.param_dict.items():
                    conds.append(y.param_dict.get(k) == v)
    return s_and(*conds) if conds else True


def run_layer(sx, cfg, env):
    """DiagLayer.decode of every message in strict / lenient / strict-again mode: where strict
    mode reports interpretations, lenient mode reports exactly the same ones"""
    import warnings
    layer = env["layer"]
    msg = sx.bytes("msg", cfg["mlen"])
    if cfg.get("first") is not None:
        sx.assume(msg[0] == cfg["first"])
        if cfg.get("second_hi") is not None:
            sx.assume(msg[1] >> 4 == cfg["second_hi"])
    else:
        sx.assume(s_and(*[msg[0] != b for b in cfg["not_first"]]))

    def op():
        with warnings.catch_warnings():
            warnings.simplefilter("ignore")
            return layer.decode(msg)

    _three(sx, op, _same_msgs)


LIM = {"quick": explore.Limits(max_paths=4000, wall_s=200), "thorough": explore.Limits(max_paths=40000, wall_s=900)}
HARNESSES = {
    "enc": {"build": cc.build_atom, "run": run_enc, "width": 80, "limits": LIM,
            "must_cover": ["strict-ok", "strict-error", "downgraded"]},
    "dec": {"build": cc.build_atom, "run": run_dec, "width": 80, "limits": LIM,
            "must_cover": ["strict-ok", "strict-error", "downgraded"]},
    "compdec": {"build": None, "run": run_compdec, "width": 80, "limits": LIM,
                "must_cover": ["strict-ok", "strict-error"]},
    "layer": {"build": build_layer, "run": run_layer, "width": 80, "limits": LIM,
              "must_cover": ["strict-ok", "strict-error"]},
}
from harness import composite as _cp  # noqa: E402
HARNESSES["compdec"]["build"] = _cp.build_composite
STUBS = cc.STUBS + ["odxtools.exceptions.strict_mode is flipped by the harness itself (that is the "
                    "operation under test)", "logging of downgraded problems is silenced"]


def configs(tier, seed):
    out = []
    for a in cc.atoms(tier, seed):
        c = dict(a)
        c.update(harness="enc", id="enc/" + cc.atom_id(a), tail=a.get("tail", True),
                 build={k: v for k, v in a.items() if k not in ("vlen", "sidx")})
        if a["dt"] == "A_UINT32" and a.get("enc") == "BCD-P":
            c["W"] = 48
        out.append(c)
    seen = set()
    for a in cc.atoms(tier, seed):
        b = {k: v for k, v in a.items() if k not in ("vlen", "sidx")}
        key = json.dumps(b, sort_keys=True)
        if key in seen:
            continue
        seen.add(key)
        ml = c05.min_len(b)
        for n in sorted({0, ml - 1, ml, ml + 1}):
            if n < 0:
                continue
            c = dict(b)
            c.update(harness="dec", id=f"dec/{cc.atom_id(b)}/len{n}", build=b, mlen=n,
                     tail=b.get("tail", True))
            out.append(c)
    for name in ("table", "table-row-ref", "mux", "dtc", "dynlen-field", "static-field",
                 "endmarker-field-mid", "length-key", "structure-bytesize", "physconst-reserved"):
        for n in ((2, 3, 4) if tier == "quick" else range(0, 7)):
            out.append({"id": f"compdec/{name}/len{n}", "harness": "compdec", "what": "request",
                        "name": name, "mlen": n, "build": {"what": "request", "name": name}})
    for layer in ("negative-responses", "global-negative"):
        firsts = [0x10, 0x11, 0x50, 0x7F]
        for n in (3,):
            base = {"harness": "layer", "layer": layer, "mlen": n, "build": {"layer": layer}}
            for fb in firsts:
                if fb == 0x7F:
                    for hi in range(16):
                        out.append(dict(base, id=f"layer/{layer}/len{n}/b{fb:02x}/{hi:x}x", first=fb,
                                        second_hi=hi))
                else:
                    out.append(dict(base, id=f"layer/{layer}/len{n}/b{fb:02x}", first=fb))
            out.append(dict(base, id=f"layer/{layer}/len{n}/other", not_first=firsts))
    return out


BOUNDS = {"atoms": "as C04 (encode) and C05 (decode, message lengths {0, min-1, min, min+1})"}
ASSUMPTIONS = ["the flag is flipped at run time inside one interpreter, which is the scenario the "
               "property describes; a library imported while the flag is already False is not "
               "reachable (exceptions.py sets it to True at import)",
               "foreign (non-OdxError) exceptions in lenient mode are documented as undefined "
               "behaviour and are not counted here"]
