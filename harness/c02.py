"""C02 over the atom catalogue (codec_common.py) and the nested descriptions (composite.py)."""
from harness import codec_common as cc
from harness import composite as cp

HARNESSES = {"atom": cc.ATOM_HARNESS, "composite": cp.COMPOSITE_HARNESS}
if "C02" == "C08":
    HARNESSES["required"] = cp.REQUIRED_HARNESS
STUBS = cc.STUBS


def configs(tier, seed):
    return cc.configs_for("C02", tier, seed) + cp.configs_for("C02", tier, seed)


BOUNDS = {"atoms": "bit length in {1,2,7,8,9,12,15,16,17,24,31,32,33,63,64} x bit position 0..7 x "
          "byte position {none,1,3} x byte order; BCD <= 16 bits (quick), packed <= 20 / unpacked <= 24 bits (thorough; packed BCD of 24 bits is at the solver's limit and outside the claim); thorough: every bit length 1..64; integer "
          "values symbolic in [-2^(bl+2), 2^(bl+2)], W=80; byte fields: every content, lengths 0..n+1; "
          "floats: every non-NaN binary64; strings: catalogue of 13 operands; MIN-MAX-LENGTH and "
          "LEADING-LENGTH-INFO types with byte fields (every content, lengths 0..max+1) and strings",
          "composites": "25 nested descriptions (structures with/without BYTE-SIZE at offsets, "
          "static / dynamic-length / end-of-pdu / end-marker fields with 0..3 items, multiplexer, "
          "explicit and overlapping positions, constants, defaults, reserved, length key, response "
          "with request echo), every leaf value symbolic"}
ASSUMPTIONS = ["quick tier: seeded half of the integer atom product plus all boundary members"]


def canaries(tier):
    """differential validation of the bitstruct model against both real back ends"""
    from models import selftest
    r = selftest.run(seed=0)
    return {"bitstruct_model_vs_real_backends_cases": r["checked"],
            "failed": [f"bitstruct model differs from the real back end: {m}" for m in r["failed"]]}
