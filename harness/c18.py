"""C18 - the comparison tool reports the true differences.

Two real EcuVariant layers are built from one service set; the second carries exactly one edit.
Numeric edits (the coded value of a constant, the byte position of a parameter, a default value)
are SYMBOLIC: the new value is any number different from the old one, and the old one is
symbolic as well, so that "the edit is reported as exactly that kind of change for exactly that
service" is decided for every pair of old/new values.  Structural edits (add / delete / rename a
service, bit length, semantic, data type, linked DOP) have no value dimension and are run as
concrete witnesses of the same oracle.  The data-level API of the tool
(Comparison.compare_diagnostic_layers) is driven; the rich rendering is not part of the claim.
"""
import copy
import warnings

from symx import core, explore
from symx.core import s_and, s_or, s_not
from harness.c06 import C, V, MR, NRC, rq

U8 = {"dt": "A_UINT32", "bl": 8}


def base_spec(vals):
    """vals: symbolic / concrete numbers that parameterise the service set"""
    return {"services": [
        {"name": "read", "request": rq(C("sid", 0x22), C("did", 0x0101, 16), V("x"),
                                       C("mark", vals["mark"], bytepos=4)),
         "pos": [rq(C("sid", 0x62), C("did", 0x0101, 16), V("y", 16, bytepos=vals["ypos"]),
                    C("chk", vals["chk"], bytepos=6)),
                 rq(C("sid", 0x62), C("did", 0x0102, 16), V("z"), C("chk2", vals["chk2"]))],
         "neg": [rq(C("sid", 0x7F), MR("rsid"), NRC("nrc", [0x11, 0x31]))]},
        {"name": "session", "request": rq(C("sid", 0x10), V("kind", default=vals["dflt"])),
         "pos": [rq(C("sid", 0x50), V("kind"), C("p2", vals["p2"], 16))]},
        # a service whose short name is a Python keyword
        {"name": "import", "request": rq(C("sid", 0x31), V("p")),
         "pos": [rq(C("sid", 0x71), C("k", vals["k"]))]},
        # a request without constant prefix (it starts with a value)
        {"name": "raw", "request": rq(V("first"), C("mid", 0x99)), "pos": [rq(C("sid", 0x40), V("r"))]},
        # (last: the catalogue builder numbers its ids consecutively, so deleting it shifts no id)
        {"name": "reset", "request": rq(C("sid", 0x11), C("sub", 0x01)),
         "pos": [rq(C("sid", 0x51), C("sub", 0x01))]},
    ], "gnr": []}


BASE = {"k": 0x21, "mark": 0x5A, "ypos": 3, "chk": 0x77, "dflt": 3, "p2": 0x0032, "chk2": 0x11}

# numeric edits: name -> (service, where, parameter, property the tool must name)
NUMERIC = {
    "request-const-behind-value": ("mark", "read", "request parameter 'mark'", "Value"),
    "response-const": ("chk", "read", "positive response parameter 'chk'", "Value"),
    "response-const-16": ("p2", "session", "positive response parameter 'p2'", "Value"),
    "second-response-const": ("chk2", "read", "positive response parameter 'chk2'", "Value"),
    "keyword-named-service-const": ("k", "import", "positive response parameter 'k'", "Value"),
    "response-byte-position": ("ypos", "read", "positive response parameter 'y'", "Byte position"),
}
RANGE = {"mark": (0, 255), "chk": (0, 255), "p2": (0, 65535), "ypos": (0, 5), "chk2": (0, 255), "k": (0, 255)}


def _edit_structural(spec, kind):
    """returns (service the edit belongs to, what must be reported)"""
    sv = {s["name"]: s for s in spec["services"]}
    if kind == "add-service":
        spec["services"].append({"name": "extra", "request": rq(C("sid", 0x3E), V("z")),
                                 "pos": [rq(C("sid", 0x7E), V("z"))]})
        return "extra", "new"
    if kind == "delete-service":
        spec["services"] = [s for s in spec["services"] if s["name"] != "reset"]
        return "reset", "deleted"
    if kind == "rename-service":
        sv["reset"]["name"] = "ecu_reset"
        return "ecu_reset", "renamed"
    if kind == "rename-service-without-prefix":
        sv["raw"]["name"] = "raw_renamed"
        return "raw_renamed", "renamed"
    if kind == "nrc-data-type":
        sv["read"]["neg"][0]["params"][2]["type"] = {"dt": "A_INT32", "bl": 8}
        return "read", ("negative response parameter 'nrc'", "Data type")
    if kind == "bit-length":
        sv["session"]["pos"][0]["params"][1]["dop"] = {"dt": "A_UINT32", "bl": 16}
        return "session", ("positive response parameter 'kind'", "Bit Length")
    if kind == "const-bit-length":
        sv["read"]["pos"][0]["params"][3]["type"] = {"dt": "A_UINT32", "bl": 16}
        return "read", ("positive response parameter 'chk'", "Bit Length")
    if kind == "data-type":
        sv["read"]["pos"][0]["params"][3]["type"] = {"dt": "A_INT32", "bl": 8}
        return "read", ("positive response parameter 'chk'", "Data type")
    if kind == "linked-dop":
        sv["read"]["request"]["params"][2]["dop"] = {"dt": "A_INT32", "bl": 8}
        return "read", ("request parameter 'x'", "Linked DOP object")
    if kind == "byte-position-removed":
        sv["read"]["pos"][0]["params"][2].pop("bytepos")
        return "read", ("positive response parameter 'y'", "Byte position")
    if kind == "byte-position-added":
        sv["session"]["pos"][0]["params"][1]["bytepos"] = 1
        return "session", ("positive response parameter 'kind'", "Byte position")
    if kind == "default-value":
        sv["session"]["request"]["params"][1]["default"] = 4
        return "session", ("request parameter 'kind'", "Default value")
    if kind == "semantic":
        sv["read"]["request"]["params"][2]["semantic"] = "DATA"
        return "read", ("request parameter 'x'", "Semantic")
    if kind == "negative-response-values":
        sv["read"]["neg"][0]["params"][2]["values"] = [0x11, 0x33]
        return "read", ("negative response parameter 'nrc'", "Values")
    raise KeyError(kind)


STRUCTURAL = ["add-service", "delete-service", "rename-service", "rename-service-without-prefix",
              "nrc-data-type", "bit-length", "const-bit-length",
              "data-type", "linked-dop", "semantic", "negative-response-values", "default-value",
              "byte-position-removed", "byte-position-added"]


def build_none(cfg):
    import odxtools.isotp_state_machine  # noqa
    import odxtools.cli.compare  # noqa
    import odxtools.cli._print_utils  # noqa
    import odxtools.database  # noqa
    return {}


def _layers(old_vals, new_vals, structural=None, old_is_edited=False):
    from catalogue import build
    old_spec = base_spec(old_vals)
    new_spec = base_spec(new_vals)
    what = None
    if structural:
        what = _edit_structural(new_spec, structural)
    return build.build_layer(old_spec), build.build_layer(new_spec), what


def _names(lst):
    return sorted(s.short_name for s in lst)


def _report(new, old, sx=None):
    from odxtools.cli.compare import Comparison
    with warnings.catch_warnings():
        warnings.simplefilter("ignore")
        rep = Comparison().compare_diagnostic_layers(new, old)
        if sx is not None:
            # a later comparison in the same process is not influenced by an earlier one: the layer
            # against itself reports nothing, and the earlier report is left alone
            snap = [_names(rep["new_services"]), _names(rep["deleted_services"]),
                    _names(rep["changed_name_of_service"][0]),
                    _names(rep["changed_parameters_of_service"][0])]
            again = Comparison().compare_diagnostic_layers(new, new)
            _require_only(sx, again)
            sx.require(snap == [_names(rep["new_services"]), _names(rep["deleted_services"]),
                                _names(rep["changed_name_of_service"][0]),
                                _names(rep["changed_parameters_of_service"][0])],
                       "an-earlier-report-is-not-altered-by-a-later-comparison")
        return rep


def _require_only(sx, rep, new=(), deleted=(), renamed=(), changed=()):
    sx.require(_names(rep["new_services"]) == sorted(new), "new-services-are-exactly-the-added-ones")
    sx.require(_names(rep["deleted_services"]) == sorted(deleted),
               "deleted-services-are-exactly-the-removed-ones")
    sx.require(_names(rep["changed_name_of_service"][0]) == sorted(renamed),
               "renamed-services-are-exactly-the-renamed-ones")
    sx.require(_names(rep["changed_parameters_of_service"][0]) == sorted(changed),
               "services-with-changed-parameters-are-exactly-the-edited-ones")


def run_identity(sx, cfg, env):
    """a layer compared with an equal copy of itself: no change, for all values of its numbers"""
    vals = dict(BASE)
    vals.update({k: sx.int(k, *RANGE[k]) for k in RANGE})
    old, new, _ = _layers(vals, vals)
    rep = _report(new, old)
    sx.cover("compared")
    _require_only(sx, rep)


def run_numeric(sx, cfg, env):
    key, svc, where, prop = NUMERIC[cfg["edit"]]
    old_vals = dict(BASE)
    new_vals = dict(BASE)
    old_vals[key] = sx.int("old", *RANGE[key])
    new_vals[key] = sx.int("new", *RANGE[key])
    sx.assume(old_vals[key] != new_vals[key])
    old, new, _ = _layers(old_vals, new_vals)
    rep = _report(new, old, sx)
    sx.cover("compared")
    _require_only(sx, rep, changed=[svc])
    ch = rep["changed_parameters_of_service"]
    if _names(ch[0]) == [svc]:
        sx.require(where in ch[1][0], "the-edited-parameter-is-named")
        tables = [t for t in ch[2][0] if isinstance(t, dict) and "Property" in t]
        props = [p.strip() for t in tables for p in t["Property"]]
        sx.observe("properties", props)
        sx.require(props == [prop], "exactly-the-edited-attribute-is-reported")
        if props == [prop]:
            # the first argument of the comparison is the NEW layer, the second the OLD one
            t = tables[0]
            ov, nv = t["Old Value"][0], t["New Value"][0]
            if prop == "Value":
                # rendered as hexadecimal text; symbolic numbers print as a placeholder
                ov, nv = [(int(x, 16) if "<" not in x else None) for x in (ov, nv)]
            if ov is not None and nv is not None:
                sx.require(s_and(ov == old_vals[key], nv == new_vals[key]),
                           "old-and-new-value-are-reported-as-such")


def run_structural(sx, cfg, env):
    sel = sx.int("sel", 0, 0)
    sx.assume(sel == 0)
    old, new, what = _layers(dict(BASE), dict(BASE), structural=cfg["edit"])
    svc, kind = what
    rep = _report(new, old, sx)
    sx.cover("compared")
    if kind == "new":
        _require_only(sx, rep, new=[svc])
    elif kind == "deleted":
        _require_only(sx, rep, deleted=[svc])
    elif kind == "renamed":
        _require_only(sx, rep, renamed=[svc])
        if _names(rep["changed_name_of_service"][0]) == [svc]:
            sx.require(list(rep["changed_name_of_service"][1]) ==
                       [{"ecu_reset": "reset", "raw_renamed": "raw"}[svc]], "old-name-is-reported")
    else:
        where, prop = kind
        _require_only(sx, rep, changed=[svc])
        ch = rep["changed_parameters_of_service"]
        if _names(ch[0]) == [svc]:
            sx.require(where in ch[1][0], "the-edited-parameter-is-named")
            props = [p.strip() for t in ch[2][0] if isinstance(t, dict) and "Property" in t
                     for p in t["Property"]]
            sx.observe("properties", props)
            sx.require(prop in props, "the-edited-attribute-is-reported")
            # the bit length / type of a VALUE parameter lives in its DOP: the DOP is reported along
            dop_edit = prop == "Linked DOP object" or (prop == "Bit Length" and "'kind'" in where)
            sx.require(all(p == prop or (dop_edit and (p.startswith("DOP") or p == "Linked DOP object"))
                           for p in props), "only-the-edited-attribute-is-reported")


def run_database(sx, cfg, env):
    """database level: the same layers (no change at all, for all values), a layer added, a layer
    removed"""
    import types
    from odxtools.cli.compare import Comparison
    vals = dict(BASE)
    vals.update({k: sx.int(k, *RANGE[k]) for k in RANGE})
    old, new, _ = _layers(vals, vals)
    other, _, _ = _layers(dict(BASE), dict(BASE))
    other.diag_layer_raw.short_name = "other"
    kind = cfg["edit"]
    olds, news = [old], [new]
    if kind == "layer-added":
        news.append(other)
    elif kind == "layer-removed":
        olds.append(other)
    c = Comparison()
    c.diagnostic_layer_names = {"layer", "other"}
    with warnings.catch_warnings():
        warnings.simplefilter("ignore")
        rep = c.compare_databases(types.SimpleNamespace(diag_layers=news),
                                  types.SimpleNamespace(diag_layers=olds))
    sx.cover("compared")
    sx.require(_names(rep["new_diagnostic_layers"]) == (["other"] if kind == "layer-added" else []),
               "new-layers-are-exactly-the-added-ones")
    sx.require(_names(rep["deleted_diagnostic_layers"]) == (["other"] if kind == "layer-removed" else []),
               "deleted-layers-are-exactly-the-removed-ones")
    sx.require("layer" in rep, "common-layer-is-compared")
    if "layer" in rep:
        _require_only(sx, rep["layer"])
    if kind == "same":
        # the same Comparison object compares a second pair: this time the old database lacks a
        # service, which must be reported as new whatever the first comparison found
        older, _, _ = _layers(dict(BASE), dict(BASE))
        older_spec = base_spec(dict(BASE))
        older_spec["services"] = [x for x in older_spec["services"] if x["name"] != "reset"]
        from catalogue import build
        older = build.build_layer(older_spec)
        newer = build.build_layer(base_spec(dict(BASE)))
        with warnings.catch_warnings():
            warnings.simplefilter("ignore")
            rep2 = c.compare_databases(types.SimpleNamespace(diag_layers=[newer]),
                                       types.SimpleNamespace(diag_layers=[older]))
        sx.require("layer" in rep2 and _names(rep2["layer"]["new_services"]) == ["reset"],
                   "a-second-comparison-on-the-same-object-reports-its-own-differences")


def run_overview(sx, cfg, env):
    """the layer overview of the list tool: the numbers it prints are the numbers of services,
    data objects and communication parameters of the layer (concrete witness; the rendering is
    intercepted at rich_print)"""
    from catalogue import hier as H
    import odxtools.cli._print_utils as pu
    sel = sx.int("sel", 0, 0)
    sx.assume(sel == 0)
    n = cfg["n"]
    names = ["CP_Baudrate", "CP_TesterPresentTime", "CP_CanFuncReqId", "CP_BlockSize"][:n]
    own = [{"cp": x, "value": "7", "protocol": None} for x in names[1:]]
    if cfg.get("qualified"):
        # the same parameters once more, qualified for the protocol: one more visible definition each
        own += [{"cp": x, "value": "9", "protocol": "P1"} for x in names[:cfg["qualified"]]]
        n += cfg["qualified"]
    spec = {"specs": [{"name": x, "default": "1"} for x in names] or [{"name": "CP_X", "default": "1"}],
            "layers": [{"name": "P1", "type": "protocol", "parents": [],
                        "comparams": [{"cp": x, "value": "5", "protocol": None} for x in names[:1]]},
                       {"name": "EV", "type": "ecu-variant", "parents": ["P1"], "comparams": own}]}
    if cfg.get("rows"):
        # several rows in one overview, layers without communication parameters in between
        spec["layers"].insert(1, {"name": "SD1", "type": "ecu-shared-data", "parents": []})
        spec["layers"].append({"name": "SD2", "type": "ecu-shared-data", "parents": []})
    want_dops = None
    if cfg.get("dops"):
        # data objects along the chain: the protocol defines three, the variant excludes two of
        # them by NOT-INHERITED-DOPS (without redefining them), overrides one and adds one
        spec["layers"][0]["dops"] = ["temperature", "pressure", "speed"]
        spec["layers"][-1 if not cfg.get("rows") else 2].update(
            dops=["speed", "voltage"], not_inherited={"dops": ["temperature", "pressure"]})
        want_dops = {"P1": 3, "EV": 2, "SD1": 0, "SD2": 0}  # EV: speed (its own), voltage
    built = H.build_hierarchy(spec)["layers"]
    rows = [built[x] for x in cfg.get("rows", ["EV"])]
    seen = []
    real = pu.rich_print
    pu.rich_print = lambda t, *a, **k: seen.append(t)
    try:
        pu.print_dl_metrics(rows)
    finally:
        pu.rich_print = real
    sx.cover("compared")
    cells = [list(c.cells) for c in seen[0].columns]
    sx.observe("rows", [[c[i] for c in cells] for i in range(len(rows))])
    sx.require(len(cells[0]) == len(rows), "one-row-per-layer")
    for i, layer in enumerate(rows):
        sx.require(cells[0][i] == layer.short_name, "overview-names-the-layer")
        sx.require(cells[2][i] == str(len(list(layer.services))), "overview-counts-the-services")
        sx.require(cells[3][i] == str(len(layer.diag_data_dictionary_spec.data_object_props)),
                   "overview-counts-the-data-objects")
        if want_dops is not None:
            sx.require(cells[3][i] == str(want_dops[layer.short_name]),
                       "overview-counts-the-data-objects-visible-in-the-layer")
        want = {"EV": n, "P1": min(1, len(names)), "SD1": 0, "SD2": 0}[layer.short_name]
        sx.require(cells[4][i] == str(want), "overview-counts-the-communication-parameters")


LIM = {"quick": explore.Limits(max_paths=2000, wall_s=200), "thorough": explore.Limits(max_paths=20000, wall_s=900)}
HARNESSES = {
    "identity": {"build": build_none, "run": run_identity, "width": 64, "limits": LIM, "must_cover": ["compared"]},
    "numeric": {"build": build_none, "run": run_numeric, "width": 64, "limits": LIM, "must_cover": ["compared"]},
    "structural": {"build": build_none, "run": run_structural, "width": 64, "limits": LIM,
                   "must_cover": ["compared"]},
    "database": {"build": build_none, "run": run_database, "width": 64, "limits": LIM,
                 "must_cover": ["compared"]},
    "overview": {"build": build_none, "run": run_overview, "width": 64, "limits": LIM,
                 "must_cover": ["compared"]},
}
STUBS = ["int/str/bytes shims", "bitstruct -> models.bitstruct_model (constant prefixes are encoded)",
         "the rich rendering (Display) is not driven: Comparison.compare_diagnostic_layers returns the data"]


def configs(tier, seed):
    out = [{"id": "identity/three-services", "harness": "identity", "build": {}}]
    for e in NUMERIC:
        out.append({"id": f"numeric/{e}", "harness": "numeric", "edit": e, "build": {}})
    for e in STRUCTURAL:
        out.append({"id": f"structural/{e}", "harness": "structural", "edit": e, "build": {}})
    for e in ("same", "layer-added", "layer-removed"):
        out.append({"id": f"database/{e}", "harness": "database", "edit": e, "build": {}})
    for n in (0, 1, 3, 4):
        out.append({"id": f"overview/{n}-comparams", "harness": "overview", "n": n, "build": {}})
    out.append({"id": "overview/data-objects-not-inherited", "harness": "overview", "n": 2, "dops": True,
                "rows": ["P1", "EV"], "build": {}})
    for q in (1, 2):
        out.append({"id": f"overview/3-comparams-{q}-qualified", "harness": "overview", "n": 3,
                    "qualified": q, "build": {}})
    out.append({"id": "overview/rows", "harness": "overview", "n": 3,
                "rows": ["P1", "SD1", "EV", "SD2"], "build": {}})
    return out


BOUNDS = {"quick": "one service set of three services (request constants in front of and behind a value, 16-bit "
                   "constants, explicit byte positions, default values, NRC-CONST); every old/new pair of the "
                   "edited number within its field width; nine structural single edits as concrete witnesses",
          "thorough": "same"}
ASSUMPTIONS = [
    "the two inputs are layers of the same name built from the same description, one of them with one edit",
    "an edit of a constant inside the request's constant prefix (SID / DID) is outside the catalogue: the tool "
    "identifies services across versions by that prefix, so such an edit is by construction another service",
    "the layer overview of the list tool (counts) has no value dimension: concrete witnesses (0, 1, 3, 4 "
    "communication parameters, also with protocol-qualified definitions of the same parameters), rendering "
    "intercepted at rich_print; 'number of communication parameters' = number of visible definitions, one "
    "per parameter and protocol (the layer's comparam_refs)",
]
