"""C04 over the atom catalogue (see codec_common.py) - composites are added by codec_composite."""
from harness import codec_common as cc

HARNESSES = {"atom": cc.ATOM_HARNESS}
STUBS = cc.STUBS


def configs(tier, seed):
    return cc.configs_for("C04", tier, seed)


BOUNDS = {"atoms": "bit length in {1,2,7,8,9,12,15,16,17,24,31,32,33,63,64} x bit position 0..7 x "
          "byte position {none,1,3} x byte order; BCD <= 16 (quick) / 24 (thorough) bits; integer "
          "values symbolic in [-2^(bl+2), 2^(bl+2)], W=80; byte fields: every content, lengths 0..n+1; "
          "floats: every non-NaN binary64; strings: catalogue of 13 operands"}
ASSUMPTIONS = ["quick tier: seeded sample of the atom product plus all boundary members"]
