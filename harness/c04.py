"""C04 over the atom catalogue (codec_common.py) and the nested descriptions (composite.py)."""
from harness import codec_common as cc
from harness import composite as cp

HARNESSES = {"atom": cc.ATOM_HARNESS, "composite": cp.COMPOSITE_HARNESS}
if "C04" == "C08":
    HARNESSES["required"] = cp.REQUIRED_HARNESS
HARNESSES["wrongtype"] = cc.WRONGTYPE_HARNESS
HARNESSES["constant"] = cp.CONSTANT_HARNESS
HARNESSES["badselector"] = cp.BADSELECTOR_HARNESS
HARNESSES["unknownnested"] = cp.UNKNOWNNESTED_HARNESS
HARNESSES["foreigndtc"] = cp.FOREIGNDTC_HARNESS
STUBS = cc.STUBS


def configs(tier, seed):
    return cc.configs_for("C04", tier, seed) + cp.configs_for("C04", tier, seed) + cc.wrongtype_configs() + \
        [dict(c, prop="C04") for c in cp.configs_for("C08", tier, seed) if c["harness"] == "constant"] + \
        [{"id": f"badselector/{n}", "harness": "badselector", "what": "request", "name": n,
          "prop": "C04", "build": {"what": "request", "name": n}} for n in cp.BAD_SELECTORS] + \
        [{"id": f"unknownnested/{n}/{dtc}", "harness": "unknownnested", "what": "request", "name": n,
          "prop": "C04", "dtc": dtc, "shape": cp.shapes(cp.COMPOSITES[n])[-1],
          "build": {"what": "request", "name": n}}
         for n, path in cp.UNKNOWN_NESTED.items() if path
         for dtc in ((7, 1) if n == "env-data-then-structure" else (0,))] + \
        [{"id": f"foreigndtc/{n}", "harness": "foreigndtc", "what": "request", "name": n,
          "prop": "C04", "shape": cp.shapes(cp.COMPOSITES[n])[-1],
          "build": {"what": "request", "name": n}} for n in ("dtc", "dtc-lowhigh")]


BOUNDS = {"atoms": "bit length in {1,2,7,8,9,12,15,16,17,24,31,32,33,63,64} x bit position 0..7 x "
          "byte position {none,1,3} x byte order; BCD <= 16 bits (quick), packed <= 20 / unpacked <= 24 bits (thorough; packed BCD of 24 bits is at the solver's limit and outside the claim); thorough: every bit length 1..64; integer "
          "values symbolic in [-2^(bl+2), 2^(bl+2)], W=80; byte fields: every content, lengths 0..n+1; "
          "floats: every non-NaN binary64; strings: catalogue of 13 operands; MIN-MAX-LENGTH and "
          "LEADING-LENGTH-INFO types with byte fields (every content, lengths 0..max+1) and strings",
          "composites": "25 nested descriptions (structures with/without BYTE-SIZE at offsets, "
          "static / dynamic-length / end-of-pdu / end-marker fields with 0..3 items, multiplexer, "
          "explicit and overlapping positions, constants, defaults, reserved, length key, response "
          "with request echo), every leaf value symbolic"}
ASSUMPTIONS = ["quick tier: seeded half of the integer atom product plus all boundary members"]
